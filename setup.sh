#!/bin/sh
# MANIFEST.setup_cmd: offline install of the contract libraries beside the repository's interpreter.
set -e
cd "$(dirname "$0")"
if [ ! -d .deps/icontract ]; then
  PIP_NO_INDEX=1 /venv/bin/pip install -q --no-index --find-links /opt/veriftools/wheels --target .deps icontract >/dev/null 2>&1 || \
  PIP_NO_INDEX=1 /venv/bin/pip install --no-index --find-links /opt/veriftools/wheels --target .deps icontract
fi
mkdir -p evidence replays .work
/venv/bin/python - <<'PY'
import sys; sys.path.insert(0, '.deps')
import icontract; print('icontract', icontract.__version__)
PY
