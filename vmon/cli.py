"""./check <ID> [--tier quick|thorough] [--replay FILE] [--seed N]"""
import argparse
import os
import sys

from . import runner


def main():
    ap = argparse.ArgumentParser(prog='check')
    ap.add_argument('property')
    ap.add_argument('--tier', default=os.environ.get('VERIF_TIER', 'quick'), choices=['quick', 'thorough'])
    ap.add_argument('--replay')
    ap.add_argument('--seed', type=int, default=None)
    a = ap.parse_args()
    prop = a.property.upper()
    seed = a.seed
    if seed is None:
        try:
            seed = int(os.environ.get('VERIF_SEED', runner.DEFAULT_SEED))
        except ValueError:
            seed = runner.DEFAULT_SEED
    if a.replay:
        sys.exit(runner.run_replay(prop, a.replay))
    sys.exit(runner.run_check(prop, a.tier, seed))


if __name__ == '__main__':
    main()
