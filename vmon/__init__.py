"""vmon: runtime monitors for CGsmiles properties C01-C20 (see /verif/DESIGN.md)."""
