"""Post-state contract on MoleculeResolver.resolve (icontract): the generator-independent invariants
of C02, C03, C09, C12 (numbering, library immutability) and C15 (reference validity) are evaluated on
EVERY call, whatever workload made it.  Conditions record into RECORDS and return True, so one call
can report several violations and the workload is not aborted by the monitor.
"""
import collections
import copy
import re

import networkx as nx

from . import hooks
from .gen.mol import VAL

RECORDS = []          # list of dict(prop, clause, msg)
# set by a workload that knows its input text contains no explicitly written hydrogen atom ('[H'):
# then every hydrogen of the result must be a completed one
CONTEXT = {'explicit_h_possible': True}
STATS = collections.Counter()
INTERNAL_KEYS = {'element', 'aromatic', 'charge', 'hcount', 'fragname', 'fragid', 'bonding', 'atomname',
                 'ez_isomer_class', 'ez_isomer_atoms', 'ez_isomer', 'single_h_frag', 'class', 'isotope',
                 'rs_isomer', 'w', 'mapping', 'graph', 'position', 'contraction', 'stereo'}


class PostBroken(AssertionError):
    pass


def rec(prop, clause, msg):
    RECORDS.append(dict(prop=prop, clause=clause, msg=msg))


def take(prop=None):
    """pop recorded violations (all, or those of one property)"""
    global RECORDS
    if prop is None:
        out, RECORDS = RECORDS, []
        return out
    out = [r for r in RECORDS if r['prop'] == prop]
    RECORDS = [r for r in RECORDS if r['prop'] != prop]
    return out


CALL_LOG = []       # one entry per observed resolve() call since the last clear(): what the call returned, as it returned it


def clear():
    global RECORDS
    RECORDS = []
    del CALL_LOG[:]


def compatible_ref(a, b, legacy):
    """independent statement of the bonding-descriptor compatibility rules (descriptor = kind+label+order digit)"""
    ka, kb = a[0], b[0]
    if legacy:
        if ka == kb and ka in '$!':
            return a == b
        if {ka, kb} == {'<', '>'}:
            return a[1:] == b[1:]
        return False
    return (ka == kb and ka in '$!') or {ka, kb} == {'<', '>'}


def snap_graph(g):
    return ({n: copy.deepcopy(dict(d)) for n, d in g.nodes(data=True)},
            {frozenset((a, b)): copy.deepcopy(dict(d)) for a, b, d in g.edges(data=True)})


def snapshot(self):
    """pre-state: what the call is about to resolve"""
    try:
        level = self.resolution_counter
        fragment_dict = self.fragment_dicts[level]
        # what the CALLER asked for decides how the result is judged (a resolver that loses a keyword on the way
        # must not be judged by its own, wrong, idea of it); without a harness-side record the resolver's state is used
        want_aa = CONTEXT.get('requested_last_all_atom')
        want_legacy = CONTEXT.get('requested_legacy')
        all_atom = (level == self.resolutions - 1 and (self.last_all_atom if want_aa is None else want_aa))
        base = self.molecule
        names = {}
        for n in base.nodes:
            # the name under which the fragment is looked up: atom names of the previous level
            names[n] = base.nodes[n].get('atomname', base.nodes[n].get('fragname')) if level > 0 else base.nodes[n].get('fragname')
        # fragment graphs the CALLER handed to from_fragment_dicts, snapshotted by the harness before the constructor saw
        # them: a constructor that edits them must not be judged by its own edit
        given = CONTEXT.get('given_templates')
        templates = given[level] if given and level < len(given) else {k: snap_graph(g) for k, g in fragment_dict.items()}
        return dict(level=level, all_atom=all_atom, legacy=(self.legacy if want_legacy is None else want_legacy), fragment_dict=fragment_dict,
                    templates=templates,
                    base_edges={frozenset((a, b)): d.get('order', 1) for a, b, d in base.edges(data=True)},
                    base_nodes=list(base.nodes), base_names=names, base_obj=base)
    except Exception as err:   # internal layout changed: the API-level oracles still apply
        STATS['snapshot_unavailable'] += 1
        return None


def desc_order(text):
    """annotated order of a stored descriptor (kind + label + order): the aromatic symbol ':' is stored as 1.5"""
    return 1.5 if str(text).endswith('1.5') else int(str(text)[-1])


def _order_ok(t_order, f_order, both_aromatic):
    if t_order == f_order:
        return True
    if f_order == 1.5 and both_aromatic:
        return True
    if t_order == 1.5 and f_order in (1, 2) and not both_aromatic:
        return True
    return False


LAST_PAIR = {}      # id(resolver) -> (resolver, coarse graph, fine graph) returned by its latest resolve() call


def check(pre, self, result):
    STATS['resolve_calls'] += 1
    try:
        cg, aa = result
    except Exception:
        rec('C02', 'c02.return_shape', f'resolve() returned {type(result).__name__}')
        return True
    LAST_PAIR.clear()
    LAST_PAIR[id(self)] = (self, cg, aa)
    try:
        CALL_LOG.append(dict(resolver=id(self), fragnames={n: d.get('fragname') for n, d in aa.nodes(data=True)},
                             edges=aa.number_of_edges(), coarse_names={n: d.get('fragname') for n, d in cg.nodes(data=True)}))
    except Exception:
        pass
    try:
        _check(pre, cg, aa)
    except Exception as err:
        import traceback
        STATS['contract_error'] += 1
        rec('HARNESS', 'contract_error', traceback.format_exc()[-1500:])
    return True


def _check(pre, cg, aa):
    level, all_atom, legacy = pre['level'], pre['all_atom'], pre['legacy']
    templates = pre['templates']
    tag = f'[level {level}{" all-atom" if all_atom else " coarse"}]'
    coarse_keys = set(cg.nodes)
    # ------------------------------------------------------------------ C02 (i) membership / cover
    fragid_of = {}
    for n, d in aa.nodes(data=True):
        fid = d.get('fragid')
        if not isinstance(fid, list) or not fid:
            rec('C02', 'c02.fragid_missing', f'{tag} fine node {n} has fragid={fid!r}')
            fid = []
        fragid_of[n] = fid
        for k in fid:
            if k not in coarse_keys:
                rec('C02', 'c02.fragid_not_a_coarse_key', f'{tag} fine node {n} records coarse node {k!r}, coarse keys are {sorted(coarse_keys, key=repr)[:20]}')
    covered = set()
    members = {}
    for k in cg.nodes:
        gr = cg.nodes[k].get('graph')
        mem = set(gr.nodes) if gr is not None else set()
        members[k] = mem
        recd = {n for n, fid in fragid_of.items() if k in fid}
        if mem != recd:
            rec('C02', 'c02.membership_mismatch', f'{tag} coarse node {k}: graph has {sorted(mem)[:12]}, fine nodes recording it {sorted(recd)[:12]}')
        covered |= mem
        if gr is not None:
            for a, b in gr.edges:
                if not aa.has_edge(a, b):
                    rec('C02', 'c02.graph_edge_not_in_fine', f'{tag} coarse node {k}: graph edge {a}-{b} is not an edge of the fine graph')
            for a in mem:
                for b in aa[a] if a in aa else ():
                    if b in mem and not gr.has_edge(a, b):
                        rec('C02', 'c02.graph_edge_missing', f'{tag} coarse node {k}: fine edge {a}-{b} between two of its nodes is missing from its graph')
                        break
    if covered != set(aa.nodes):
        rec('C02', 'c02.not_covered', f'{tag} fine nodes not covered by any coarse graph: {sorted(set(aa.nodes) - covered)[:12]}')
    # ------------------------------------------------------------------ C02 (ii) copies of the templates, (iii) names
    for k in cg.nodes:
        fname = cg.nodes[k].get('fragname')
        mem = members[k]
        if fname not in templates:
            if mem:
                rec('C02', 'c02.virtual_node_has_atoms', f'{tag} coarse node {k} ({fname}) has no fragment but owns fine nodes {sorted(mem)[:8]}')
            continue
        tnodes, tedges = templates[fname]
        cands = collections.defaultdict(set)
        for n in mem:
            for ent in aa.nodes[n].get('mapping', []) or []:
                if ent[0] == fname:
                    cands[ent[1]].add(n)
        bad = False
        if set(cands) != set(tnodes):
            lost_h = [t for t in tnodes if t not in cands and tnodes[t].get('element') == 'H']
            if lost_h and all_atom:
                rec('C09', 'c09.written_hydrogen_lost', f'{tag} coarse node {k} ({fname}): the hydrogen atoms {sorted(lost_h, key=repr)} written in its fragment have no copy in the result')
            rec('C02', 'c02.copy_nodes', f'{tag} coarse node {k} ({fname}): template nodes {sorted(tnodes, key=repr)} but its atoms map to template nodes {sorted(cands, key=repr)}')
            continue
        # a shared atom also carries the mapping entry of the other coarse node; if that node has the
        # same fragment name the correspondence can be ambiguous: prefer unshared atoms, else skip
        m, ambiguous = {}, False
        for t, ns in cands.items():
            ns = sorted(ns)
            if len(ns) == 1:
                m[t] = ns[0]
                continue
            single = [n for n in ns if len(fragid_of[n]) == 1]
            if len(single) == 1:
                m[t] = single[0]
            elif len(single) > 1:
                rec('C02', 'c02.copy_not_bijective', f'{tag} coarse node {k} ({fname}): template node {t} has several copies {single}')
                bad = True
            else:
                ambiguous = True
        if ambiguous:
            STATS['c02.ambiguous_shared_skipped'] += 1
            continue
        if len(set(m.values())) != len(m):
            rec('C02', 'c02.copy_not_bijective', f'{tag} coarse node {k} ({fname}): two template nodes share one copy {m}')
            bad = True
        if not bad:
            STATS['c02.copies_checked'] += 1
        if not bad:
            for t, n in m.items():
                td, fd = tnodes[t], aa.nodes[n]
                shared = len(fragid_of[n]) > 1
                keys = ['element'] if shared else ['element', 'charge'] + [x for x in td if x not in INTERNAL_KEYS]
                if not all_atom and not shared:
                    keys.append('atomname')
                for key in keys:
                    if key in td and td[key] != fd.get(key, '<missing>'):
                        rec('C02', 'c02.copy_attr', f'{tag} coarse node {k} ({fname}): template node {t} has {key}={td[key]!r}, its copy {n} has {fd.get(key, "<missing>")!r}')
                        break
            for e, ed in tedges.items():
                a, b = tuple(e) if len(e) == 2 else (next(iter(e)),) * 2
                fa, fb = m[a], m[b]
                if fa == fb:
                    continue
                if not aa.has_edge(fa, fb):
                    rec('C02', 'c02.copy_edge_missing', f'{tag} coarse node {k} ({fname}): template bond {a}-{b} missing between copies {fa}-{fb}')
                    continue
                both = bool(aa.nodes[fa].get('aromatic')) and bool(aa.nodes[fb].get('aromatic'))
                if not _order_ok(ed.get('order', 1), aa.edges[fa, fb].get('order', 1), both):
                    rec('C02', 'c02.copy_edge_order', f'{tag} coarse node {k} ({fname}): template bond {a}-{b} order {ed.get("order", 1)} became {aa.edges[fa, fb].get("order")} (aromatic: {both})')
            inv = {n: t for t, n in m.items()}
            for fa, fb in aa.edges:
                if fa in inv and fb in inv and len(fragid_of[fa]) == 1 and len(fragid_of[fb]) == 1:
                    if frozenset((inv[fa], inv[fb])) not in tedges:
                        rec('C02', 'c02.copy_extra_edge', f'{tag} coarse node {k} ({fname}): fine bond {fa}-{fb} between two copied atoms is not in the template')
        for n in mem:
            fn = aa.nodes[n].get('fragname')
            allowed = {cg.nodes[x].get('fragname') for x in fragid_of.get(n, []) if x in cg} | {fname}
            if fn not in allowed:
                rec('C02', 'c02.fragname', f'{tag} fine node {n} of coarse node {k} ({fname}) reports fragname {fn!r}')
                break
    # ------------------------------------------------------------------ C03 inter-fragment bonds
    used = collections.Counter()      # (fine node, descriptor) -> times used
    per_pair = collections.Counter()
    for u, v, d in aa.edges(data=True):
        fu, fv = set(fragid_of[u]), set(fragid_of[v])
        if fu & fv:
            continue
        if all_atom and (aa.nodes[u].get('element') == 'H' or aa.nodes[v].get('element') == 'H') and 'bonding' not in d:
            rec('C09', 'c09.h_membership', f'{tag} hydrogen bond {u}-{v} joins atoms of different coarse nodes {fu} {fv}')
            continue
        STATS['interfragment_bonds'] += 1
        pair = d.get('bonding')
        base_ok = [(a, b) for a in fu for b in fv if pre['base_edges'].get(frozenset((a, b)), 0) >= 1]
        if not base_ok:
            rec('C03', 'c03.no_base_edge', f'{tag} fine bond {u}-{v} joins coarse nodes {sorted(fu)} and {sorted(fv)} which share no base edge of order >= 1')
        if not pair or len(pair) != 2:
            rec('C03', 'c03.no_descriptor_pair', f'{tag} inter-fragment bond {u}-{v} carries no descriptor pair (bonding={pair!r})')
            continue
        if not compatible_ref(pair[0], pair[1], legacy):
            rec('C03', 'c03.incompatible_pair', f'{tag} bond {u}-{v} was formed from {pair} (legacy={legacy})')
        try:
            o0, o1 = desc_order(pair[0]), desc_order(pair[1])
        except ValueError:
            rec('C03', 'c03.descriptor_format', f'{tag} descriptor pair {pair} without order digit')
            continue
        if o0 != o1 and legacy:
            rec('C03', 'c03.unequal_annotated_order', f'{tag} bond {u}-{v} formed from descriptors of different order {pair}')
        both = bool(aa.nodes[u].get('aromatic')) and bool(aa.nodes[v].get('aromatic'))
        fo = d.get('order')
        def written_lower(n_):
            return any((templates.get(ent[0], ({}, {}))[0].get(ent[1]) or {}).get('aromatic') for ent in aa.nodes[n_].get('mapping', []) or [])
        # polymer-style workloads do not control the chemistry: a lower-case unit may receive an exocyclic double bond (unequal
        # orders pair under the label-insensitive convention), its ring is then not aromatic and the library re-kekulises all
        # lower-case atoms, the bond between two of them included. There the order of such a bond is 1, 2 or 1.5.
        loose = bool(CONTEXT.get('uncontrolled_aromatic')) and all_atom and written_lower(u) and written_lower(v) and fo in (1, 2, 1.5)
        if not (fo in (o0, o1) or (fo == 1.5 and both and all_atom) or loose):
            rec('C03', 'c03.bond_order', f'{tag} bond {u}-{v} from {pair} has order {fo!r} (aromatic both: {both})')
        # each endpoint must have carried its descriptor in its template
        def carried(n, desc):
            for ent in aa.nodes[n].get('mapping', []) or []:
                tn = templates.get(ent[0], ({}, {}))[0].get(ent[1])
                if tn is not None and desc in (tn.get('bonding') or []):
                    return True
            return False
        if carried(u, pair[0]) and carried(v, pair[1]):
            used[(u, pair[0])] += 1
            used[(v, pair[1])] += 1
        elif carried(u, pair[1]) and carried(v, pair[0]):
            used[(u, pair[1])] += 1
            used[(v, pair[0])] += 1
        else:
            rec('C03', 'c03.descriptor_not_on_atom', f'{tag} bond {u}-{v} from {pair}: the atoms\' templates do not carry these descriptors')
        if len(fu) == 1 and len(fv) == 1:
            per_pair[frozenset((next(iter(fu)), next(iter(fv))))] += 1
    for (n, desc), cnt in used.items():
        written = 0
        for ent in aa.nodes[n].get('mapping', []) or []:
            tn = templates.get(ent[0], ({}, {}))[0].get(ent[1])
            if tn is not None:
                written += list(tn.get('bonding') or []).count(desc)
        if cnt > written:
            rec('C03', 'c03.descriptor_used_twice', f'{tag} atom {n}: descriptor {desc} written {written}x but used for {cnt} bonds')
    for pairk, cnt in per_pair.items():
        o = pre['base_edges'].get(pairk, 0)
        if cnt > o:
            rec('C03', 'c03.more_bonds_than_order', f'{tag} coarse nodes {sorted(pairk)}: {cnt} fine bonds but base edge order {o}')
    # ------------------------------------------------------------------ C09 valence completeness
    if all_atom:
        for n, d in aa.nodes(data=True):
            el = d.get('element')
            if el == 'H':
                if d.get('mapping'):
                    # written explicitly in a template: kept as written (an unmatched single-H fragment stays alone)
                    STATS['explicit_h'] += 1
                    if aa.degree(n) > 1:
                        rec('C09', 'c09.h_degree', f'{tag} explicit hydrogen {n} has degree {aa.degree(n)}')
                    elif aa.degree(n) == 1:
                        # written INSIDE a fragment (same template as the atom it sits on): it belongs to that atom's
                        # coarse node and reports its fragment name; its weight is its own (it may carry an annotation)
                        p = next(iter(aa[n]))
                        mine, theirs = {e[0] for e in d.get('mapping')}, {e[0] for e in aa.nodes[p].get('mapping') or []}
                        if mine & theirs and len(aa.nodes[p].get('mapping') or []) == 1 and set(d.get('fragid') or []) <= set(aa.nodes[p].get('fragid') or [None]):     # (not on a shared atom: that one has one name for two copies)
                            for a in ('fragname',):
                                if d.get(a) != aa.nodes[p].get(a):
                                    rec('C09', 'c09.h_inherit', f'{tag} written hydrogen {n}: {a}={d.get(a)!r} but its atom {p} (same fragment) has {aa.nodes[p].get(a)!r}')
                        if not d.get('fragid'):
                            rec('C09', 'c09.h_inherit', f'{tag} written hydrogen {n} has fragid={d.get("fragid")!r}')
                    continue
                if aa.degree(n) != 1:
                    rec('C09', 'c09.h_degree', f'{tag} hydrogen {n} has degree {aa.degree(n)}')
                    continue
                p = next(iter(aa[n]))
                for a in ('fragid', 'fragname', 'weight'):
                    if d.get(a) != aa.nodes[p].get(a):
                        rec('C09', 'c09.h_inherit', f'{tag} hydrogen {n}: {a}={d.get(a)!r} but its atom {p} has {aa.nodes[p].get(a)!r}')
                        break
                continue
            hv = sum(e.get('order', 1) for _, x, e in aa.edges(n, data=True) if aa.nodes[x].get('element') != 'H')
            # hydrogens written explicitly in a template are kept as written; only the completed ones are the resolver's choice
            explicit_ok = CONTEXT['explicit_h_possible']
            h_written = sum(e.get('order', 1) for _, x, e in aa.edges(n, data=True)
                            if aa.nodes[x].get('element') == 'H' and aa.nodes[x].get('mapping') and explicit_ok)
            nh = sum(e.get('order', 1) for _, x, e in aa.edges(n, data=True)
                     if aa.nodes[x].get('element') == 'H' and not (aa.nodes[x].get('mapping') and explicit_ok))
            vals = VAL.get((el, d.get('charge', 0)))
            if not vals:
                STATS['valence_unknown_element'] += 1
                continue
            fit = [v for v in vals if v >= hv - 1e-9]
            fit_all = [v for v in vals if v >= hv + h_written - 1e-9]
            if not fit or not fit_all:
                STATS['valence_exceeded'] += 1
                continue
            STATS['valence_checked'] += 1
            if abs((fit_all[0] - hv - h_written) - nh) > 1e-9:
                rec('C09', 'c09.valence', f'{tag} atom {n} {el}{d.get("charge", 0):+d}: heavy bond orders sum to {hv}, explicitly written hydrogens {h_written}, smallest usual valence {fit_all[0]}, but its bonds to completed hydrogens sum to {nh}')
    # ------------------------------------------------------------------ C12 numbering / names
    keys = sorted(aa.nodes, key=repr)
    if set(aa.nodes) != set(range(len(aa))):
        rec('C12', 'c12.keys', f'{tag} node keys are not 0..{len(aa) - 1}: {keys[:20]}')
    else:
        if not any(len(f) > 1 for f in fragid_of.values()):
            seq = [fragid_of[i][0] if fragid_of[i] else None for i in range(len(aa))]
            blocks = [x for i, x in enumerate(seq) if i == 0 or seq[i - 1] != x]
            if len(blocks) != len(set(blocks)):
                rec('C12', 'c12.not_contiguous', f'{tag} atoms of a coarse node are not one contiguous block: membership by key {seq[:40]}')
            else:
                order = [x for x in pre['base_nodes'] if x in set(blocks)]
                if blocks != order and blocks != sorted(blocks, key=lambda x: (str(type(x)), x)):
                    rec('C12', 'c12.block_order', f'{tag} blocks follow {blocks[:20]}, base graph lists {order[:20]}')
    if all_atom:
        for k in cg.nodes:
            gr = cg.nodes[k].get('graph')
            if gr is None:
                continue
            names = []
            for n in gr.nodes:
                an = gr.nodes[n].get('atomname')
                el = aa.nodes[n].get('element') if n in aa else None
                if an is None or el is None or not re.fullmatch(re.escape(el) + r'\d+', str(an)):
                    rec('C12', 'c12.atomname_format', f'{tag} coarse node {k}: atom {n} ({el}) is named {an!r}')
                    break
                names.append(an)
            if len(names) != len(set(names)):
                rec('C12', 'c12.atomname_not_unique', f'{tag} coarse node {k}: atom names {names}')
            elif len(names) == len(gr) and all(len(fragid_of.get(n, ())) == 1 for n in gr.nodes):
                # 'running index': along the node's own block (key order) the index counts up by one
                idxs = [int(re.search(r'\d+$', str(gr.nodes[n]['atomname'])).group()) for n in sorted(gr.nodes)]
                if any(b - a != 1 for a, b in zip(idxs, idxs[1:])):
                    rec('C12', 'c12.atomname_index_not_running', f'{tag} coarse node {k}: atoms {sorted(gr.nodes)} carry the name indices {idxs}')
        for n, d in aa.nodes(data=True):
            if len(fragid_of[n]) == 1:
                an = d.get('atomname')
                if an is None or not re.fullmatch(re.escape(str(d.get('element'))) + r'\d+', str(an)):
                    rec('C12', 'c12.atomname_format', f'{tag} atom {n} ({d.get("element")}) is named {an!r}')
                    break
    # library immutability
    if set(pre['fragment_dict']) != set(templates):
        rec('C12', 'c12.library_modified', f'{tag} the fragment library passed in had entries {sorted(templates)} and has {sorted(pre["fragment_dict"])} after resolve()')
    for name, g in pre['fragment_dict'].items():
        if name in templates and snap_graph(g) != templates[name]:
            rec('C12', 'c12.library_modified', f'{tag} fragment {name!r} of the library was modified by resolve()')
    # ------------------------------------------------------------------ C15 stored node references
    for n, lst in aa.nodes(data='ez_isomer'):
        for tup in (lst or []):
            try:
                l1, a1, a2, l2, kind = tup
            except Exception:
                rec('C15', 'c15.reference_shape', f'{tag} node {n}: ez_isomer entry {tup!r}')
                continue
            STATS['ez_refs'] += 1
            ok = (l1 == n and aa.has_edge(l1, a1) and aa.has_edge(a1, a2) and aa.has_edge(a2, l2)
                  and aa.edges[a1, a2].get('order') == 2 and kind in ('cis', 'trans') and len({l1, a1, a2, l2}) == 4)
            if not ok:
                rec('C15', 'c15.reference_invalid', f'{tag} node {n}: stereo reference {tup} is not a path substituent-atom=atom-substituent of the result')
                continue
            mirror = (l2, a2, a1, l1, kind)
            if mirror not in [tuple(x) for x in (aa.nodes[l2].get('ez_isomer') or [])]:
                rec('C15', 'c15.reference_not_mirrored', f'{tag} node {n}: {tup} has no mirrored entry on node {l2}')
        if lst is not None and aa.nodes[n].get('ez_isomer_class') is not None:
            pass
    for n, d in aa.nodes(data=True):
        if all_atom and 'ez_isomer_class' in d:
            rec('C15', 'c15.class_mark_left', f'{tag} node {n} still carries the transient slash mark {d["ez_isomer_class"]!r}')
            break


_installed = False


def install():
    """attach the contract to MoleculeResolver.resolve (idempotent)"""
    global _installed
    if _installed:
        return True
    import icontract

    def pre_state(self):
        return snapshot(self)

    def post_state_holds(self, result, OLD):
        if OLD.pre is not None:
            check(OLD.pre, self, result)
        return True

    def factory(orig):
        return icontract.snapshot(pre_state, name='pre')(
            icontract.ensure(post_state_holds, error=PostBroken)(orig))
    res = hooks.wrap_attr('cgsmiles.resolve', 'MoleculeResolver.resolve', factory)

    def all_factory(orig):
        def resolve_all(self, *a, **kw):
            out = orig(self, *a, **kw)
            try:
                last = LAST_PAIR.get(id(self))
                if last is not None and last[0] is self:
                    STATS['resolve_all_calls'] += 1
                    cg, aa = out
                    if not (cg is last[1] and aa is last[2]):
                        from . import util
                        if util.canonical_dump(cg) != util.canonical_dump(last[1]) or util.canonical_dump(aa) != util.canonical_dump(last[2]):
                            for prop in ('C02', 'C06'):
                                rec(prop, prop.lower() + '.resolve_all_pair_is_not_the_last_step',
                                    f'resolve_all() returned a pair (coarse {len(cg)} nodes, fine {len(aa)} nodes) that is not the pair of the last '
                                    f'resolution step (coarse {len(last[1])} nodes, fine {len(last[2])} nodes), so the coarse graph does not partition the fine one')
            except Exception:
                STATS['contract_error'] += 1
            return out
        return resolve_all
    hooks.wrap_attr('cgsmiles.resolve', 'MoleculeResolver.resolve_all', all_factory)
    _installed = res is not None
    return _installed
