"""sys.monitoring probe: which lines of the anchored mechanism functions did the workload execute.

Evidence only: it never influences a verdict (a refactoring may legitimately retire a helper).
Each location returns DISABLE after its first hit, so the cost is negligible.
"""
import importlib
import sys

TOOL = 3  # sys.monitoring tool id (free slot)


def _resolve(modname, qualname):
    try:
        obj = importlib.import_module(modname)
        for part in qualname.split('.'):
            obj = getattr(obj, part)
        obj = getattr(obj, '__wrapped__', obj)
        obj = getattr(obj, '__func__', obj)
        return obj.__code__
    except Exception:
        return None


def start(mechanisms):
    """mechanisms: list of (module, qualname).  Must be called BEFORE hooks wrap the functions,
    or with the original function objects still reachable through __wrapped__."""
    mon = getattr(sys, 'monitoring', None)
    state = {'codes': {}, 'hits': {}, 'missing': []}
    if mon is None:
        return state
    for modname, qualname in mechanisms:
        code = _resolve(modname, qualname)
        name = f'{modname}:{qualname}'
        if code is None:
            state['missing'].append(name)
            continue
        state['codes'][code] = name
        state['hits'][name] = set()
    if not state['codes']:
        return state
    try:
        mon.use_tool_id(TOOL, 'vmon-linecov')
    except ValueError:
        return state

    def on_line(code, line):
        name = state['codes'].get(code)
        if name is not None:
            state['hits'][name].add(line)
        return mon.DISABLE

    mon.register_callback(TOOL, mon.events.LINE, on_line)
    for code in state['codes']:
        mon.set_local_events(TOOL, code, mon.events.LINE)
    state['on'] = True
    return state


def stop(state):
    mon = getattr(sys, 'monitoring', None)
    out = {}
    for code, name in state['codes'].items():
        lines = sorted({ln for _, _, ln in code.co_lines() if ln is not None and ln != code.co_firstlineno})
        hit = sorted(state['hits'][name])
        out[name] = {'lines_total': len(lines), 'lines_hit': hit}
    for name in state['missing']:
        out[name] = {'missing': True}
    if state.get('on'):
        try:
            for code in state['codes']:
                mon.set_local_events(TOOL, code, 0)
            mon.free_tool_id(TOOL)
        except Exception:
            pass
    return out
