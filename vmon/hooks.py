"""Observation points on the real code, attached from outside the repository.

The repository looks its helpers up in module globals at call time, so rebinding the module
attribute in every module that holds a reference is enough.  Every wrapper counts its calls in
COUNTERS; a deciding monitor whose counter stayed 0 makes the run inconclusive.  A hook whose
target no longer exists (renamed in a refactoring) is skipped and reported in MISSING: the
deciding oracles are at the public API, the hooks add depth.
"""
import collections
import functools
import importlib

COUNTERS = collections.Counter()
MISSING = []
_installed = {}


def wrap_attr(modname, attr, factory, also=()):
    """Replace `modname.attr` (dotted attr allowed for class attributes) by factory(original),
    and rebind the same original object in the `also` modules (from-imports).  Idempotent."""
    key = (modname, attr)
    if key in _installed:
        return _installed[key]
    try:
        mod = importlib.import_module(modname)
        holder = mod
        parts = attr.split('.')
        for p in parts[:-1]:
            holder = getattr(holder, p)
        orig = holder.__dict__[parts[-1]] if isinstance(holder, type) else getattr(holder, parts[-1])
    except (ImportError, AttributeError, KeyError):
        MISSING.append(f'{modname}.{attr}')
        return None
    raw = orig.__func__ if isinstance(orig, (staticmethod, classmethod)) else orig
    new = factory(raw)
    try:
        functools.update_wrapper(new, raw)
    except Exception:
        pass
    if isinstance(orig, staticmethod):
        setattr(holder, parts[-1], staticmethod(new))
    elif isinstance(orig, classmethod):
        setattr(holder, parts[-1], classmethod(new))
    else:
        setattr(holder, parts[-1], new)
    for other in also:
        try:
            om = importlib.import_module(other)
            if getattr(om, parts[-1], None) is orig:
                setattr(om, parts[-1], new)
        except ImportError:
            pass
    _installed[key] = (orig, new)
    return orig, new


def counting(name):
    def factory(orig):
        def wrapper(*a, **k):
            COUNTERS[name] += 1
            return orig(*a, **k)
        return wrapper
    return factory
