"""Oracles shared by several monitors."""
import networkx as nx

from .gen import grammar as G
from .gen import annot as A
from . import util


def V(clause, msg):
    return {'clause': clause, 'msg': msg}


def expected_attrs(node, level='base'):
    exp = {'fragname': node['name']}
    attrs = node.get('attrs')
    if attrs is None:
        attrs = A.model(level, node.get('annot') or '')
    exp.update(attrs)
    return exp


def compare_read_graph(g, nodes, edges, exact=True, what='reader'):
    """compare a graph returned by read_cgsmiles with the reference denotation"""
    out = []
    n = len(nodes)
    if list(g.nodes) != list(range(n)):
        out.append(V(f'{what}.node_keys', f'node keys {list(g.nodes)[:30]} are not 0..{n - 1} in order of appearance'))
        return out
    if exact:
        for i, node in enumerate(nodes):
            exp = expected_attrs(node)
            act = g.nodes[i]
            for k, v in exp.items():
                if k not in act or act[k] != v or (isinstance(v, float) and not isinstance(act[k], float)):
                    out.append(V(f'{what}.node_attrs', f'node {i}: expected {k}={v!r}, got {act.get(k, "<missing>")!r} (all: {dict(act)})'))
                    break
        act_edges = util.edge_table(g)
        if act_edges != edges:
            missing = {k: v for k, v in edges.items() if act_edges.get(k, '∅') != v}
            extra = {k: v for k, v in act_edges.items() if k not in edges}
            out.append(V(f'{what}.edges', f'edges differ: expected-but-different {missing}, unexpected {extra}'))
    else:
        ref = nx.Graph()
        for i, node in enumerate(nodes):
            ref.add_node(i, **expected_attrs(node))
        for (a, b), o in edges.items():
            ref.add_edge(a, b, order=o)
        keys = sorted({k for i in ref for k in ref.nodes[i]})
        if not util.iso(g, ref, node_keys=keys, edge_keys=('order',)):
            out.append(V(f'{what}.not_isomorphic', f'graph not isomorphic to the denoted one: got nodes '
                         f'{[g.nodes[i].get("fragname") for i in sorted(g)]} edges {sorted(util.edge_table(g).items())}; '
                         f'expected nodes {[x["name"] for x in nodes]} edges {sorted(edges.items())}'))
    return out


def read_and_compare(cgsmiles, ast, exact=True, what='reader'):
    """-> (violations, graph or None, string)"""
    s = G.to_string(ast)
    nodes, edges = G.denote(ast)
    try:
        g = cgsmiles.read_cgsmiles(s)
    except Exception as err:   # noqa: any exception on a grammar string refutes the property
        return [V(f'{what}.exception', f'{s!r} raised {type(err).__name__}: {err}')], None, s
    out = compare_read_graph(g, nodes, edges, exact=exact, what=what)
    for v in out:
        v['msg'] = f'{s!r}: ' + v['msg']
    return out, g, s
