"""pytest plugin: run the repository's own tests with the post-state contract attached.
Usage (from /repo):  python -m pytest -p vmon.pytest_plugin ...   with /verif on PYTHONPATH.
Records are written as JSON to $VMON_PYTEST_OUT at session end."""
import json
import os

from vmon import env

env.load()
from vmon import contracts  # noqa: E402

contracts.install()
_current = {'test': None}
_records = []


def pytest_runtest_setup(item):
    _current['test'] = item.nodeid
    contracts.clear()


def pytest_runtest_teardown(item, nextitem):
    for r in contracts.take():
        r['test'] = item.nodeid
        _records.append(r)


def pytest_sessionfinish(session, exitstatus):
    out = os.environ.get('VMON_PYTEST_OUT')
    data = dict(records=_records, stats=dict(contracts.STATS), exitstatus=int(exitstatus))
    if out:
        with open(out, 'w') as fh:
            json.dump(data, fh, default=str)
    else:
        print('\nVMON', json.dumps(data, default=str)[:3000])
