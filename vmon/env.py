"""Import the *working tree* of the repository under monitoring.

The repository is not pip-installed; `cgsmiles/__init__.py` asks pbr for a version, which only
works inside a git checkout of the package, hence PBR_VERSION.  VMON_REPO can point the monitors
at a scratch worktree (used for validating the monitors against seeded changes); the registered
checks never set it, so they always observe /repo itself.
"""
import os
import sys
import logging

VERIF = os.path.dirname(os.path.dirname(os.path.abspath(__file__)))
REPO = os.path.abspath(os.environ.get('VMON_REPO', '/repo'))
os.environ.setdefault('PBR_VERSION', '0.0.0')
DEPS = os.path.join(VERIF, '.deps')
for p in (DEPS, REPO):
    if p in sys.path:
        sys.path.remove(p)
sys.path.insert(0, DEPS)
sys.path.insert(0, REPO)
sys.dont_write_bytecode = True


def load():
    """import cgsmiles from REPO and make sure that is what we got"""
    import cgsmiles
    here = os.path.realpath(os.path.dirname(cgsmiles.__file__))
    want = os.path.realpath(os.path.join(REPO, 'cgsmiles'))
    if here != want:
        raise RuntimeError(f"cgsmiles imported from {here}, expected {want}")
    logging.getLogger('pysmiles').setLevel(logging.CRITICAL)
    logging.getLogger('cgsmiles').setLevel(logging.CRITICAL)
    return cgsmiles
