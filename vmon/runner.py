"""Parent process: shards a property's workload over subprocesses, merges what the monitors
observed, classifies violations against known_findings.json, writes evidence and replay files."""
import collections
import hashlib
import json
import os
import shutil
import subprocess
import sys
import time

from . import env

DEFAULT_SEED = 20261002
NSHARDS = {'quick': 16, 'thorough': 16}
SHARD_WATCHDOG = {'quick': 1500, 'thorough': 4 * 3600}


def load_findings():
    with open(os.path.join(env.VERIF, 'known_findings.json')) as fh:
        return json.load(fh)['findings']


def run_shards(prop, tier, seed, nshards, workdir):
    procs = []
    envv = dict(os.environ)
    envv.setdefault('PYTHONHASHSEED', '0')
    envv['PBR_VERSION'] = '0.0.0'
    envv['PYTHONDONTWRITEBYTECODE'] = '1'
    envv['OMP_NUM_THREADS'] = '1'
    envv['MPLBACKEND'] = 'Agg'
    envv['OPENBLAS_NUM_THREADS'] = '1'
    envv['MKL_NUM_THREADS'] = '1'
    for shard in range(nshards):
        out = os.path.join(workdir, f'shard{shard}.json')
        log = open(os.path.join(workdir, f'shard{shard}.log'), 'w')
        p = subprocess.Popen([sys.executable, '-m', 'vmon.worker', prop, tier, str(seed), str(shard), str(nshards), out],
                             cwd=env.VERIF, env=envv, stdout=log, stderr=subprocess.STDOUT)
        procs.append((shard, p, out, log))
    deadline = time.time() + SHARD_WATCHDOG[tier]
    results, problems = [], []
    for shard, p, out, log in procs:
        try:
            p.wait(timeout=max(1, deadline - time.time()))
        except subprocess.TimeoutExpired:
            p.kill()
            p.wait()
            problems.append(f'shard {shard} hit the wall-clock watchdog')
            continue
        finally:
            log.close()
        if p.returncode != 0 or not os.path.exists(out):
            tail = open(os.path.join(workdir, f'shard{shard}.log')).read()[-1500:]
            problems.append(f'shard {shard} exited {p.returncode}: {tail}')
            continue
        with open(out) as fh:
            results.append(json.load(fh))
    return results, problems


def merge(results):
    m = dict(evaluations=0, nontrivial=0, classes=set(), features=collections.Counter(),
             streams=collections.Counter(), samples=[], violations=[], timeouts=0,
             rejected=collections.Counter(), counters=collections.Counter(), errors=[], generator_errors=[],
             violation_counts=collections.Counter(), linecov={})
    for r in results:
        m['evaluations'] += r['evaluations']
        m['nontrivial'] += r['nontrivial']
        m['classes'].update(r['classes'])
        m['timeouts'] += r['timeouts']
        m['errors'] += r['errors']
        m['generator_errors'] += r.get('generator_errors', [])
        m['violations'] += r['violations']
        if len(m['samples']) < 6:
            m['samples'] += r['samples'][:2]
        for k in ('features', 'streams', 'rejected', 'counters', 'violation_counts'):
            m[k].update(r[k])
        for name, info in r.get('linecov', {}).items():
            cur = m['linecov'].setdefault(name, {'lines_total': info.get('lines_total', 0), 'lines_hit': set(),
                                                 'missing': info.get('missing', False)})
            cur['lines_hit'].update(info.get('lines_hit', []))
    return m


def classify(prop, merged, findings):
    """split violations into known (confirmation stream of an open finding, recorded clause) and new"""
    open_f = {f['key']: f for f in findings if f['property'] == prop and f['status'] == 'open'}
    known, new = collections.defaultdict(list), collections.defaultdict(list)
    for v in merged['violations']:
        keys = v['stream'].split('+') if v['stream'] != 'main' else []
        hit = [k for k in keys if k in open_f and v['clause'] in open_f[k]['clauses']]
        if hit:
            # a finding counts as reproduced only by its pure confirmation stream; a case that
            # exercises several open findings at once is accepted but attributed to none
            known[hit[0] if len(keys) == 1 else '(combined)'].append(v)
        else:
            new[(v['stream'], v['clause'])].append(v)
    return open_f, known, new


def write_replay(prop, tier, seed, v):
    d = os.path.join(env.VERIF, 'replays', prop)
    os.makedirs(d, exist_ok=True)
    h = hashlib.sha1(json.dumps([v['stream'], v['clause']], sort_keys=True).encode()).hexdigest()[:10]
    path = os.path.join(d, f'{v["clause"].replace("/", "_").replace(" ", "_")[:40]}-{h}.json')
    with open(path, 'w') as fh:
        json.dump(dict(property=prop, tier=tier, seed=seed, shard=v['shard'], index=v['index'], stream=v['stream'],
                       clause=v['clause'], msg=v['msg'], case=v['case']), fh, indent=1, default=str)
    return path


def run_check(prop, tier, seed):
    from .worker import load_monitor
    t0 = time.time()
    mon = load_monitor(prop)
    nshards = getattr(mon, 'NSHARDS', NSHARDS)[tier]
    workdir = os.path.join(env.VERIF, '.work', f'{prop}-{tier}-{os.getpid()}')
    shutil.rmtree(workdir, ignore_errors=True)
    os.makedirs(workdir)
    # runs against a scratch tree (validation of the monitors, VMON_REPO) never touch the evidence of /repo itself
    evidence_path = os.path.join(env.VERIF, 'evidence' if env.REPO == '/repo' else os.path.join('.work', 'evidence_scratch'), f'{prop}.json')
    os.makedirs(os.path.dirname(evidence_path), exist_ok=True)
    try:
        results, problems = run_shards(prop, tier, seed, nshards, workdir)
    finally:
        pass
    merged = merge(results)
    findings = load_findings()
    open_f, known, new = classify(prop, merged, findings)
    inconclusive = list(problems)
    for e in merged['errors']:
        inconclusive.append('harness error: ' + e[-800:])
    if merged['timeouts']:
        inconclusive.append(f"{merged['timeouts']} case(s) hit the per-case hang watchdog")
    if merged['evaluations'] == 0:
        inconclusive.append('no executions observed')
    ncases = sum(merged['streams'].values())
    if ncases >= 100 and merged['nontrivial'] < 0.05 * ncases:
        # e.g. an error inside the harness that every case swallows as 'the input was rejected': nothing was judged
        inconclusive.append(f"only {merged['nontrivial']} of {ncases} cases reached the oracle (non-trivial cases)")
    for name in getattr(mon, 'REQUIRED_COUNTERS', []):
        if merged['counters'].get(name, 0) == 0:
            inconclusive.append(f'deciding counter {name} is 0')
    for name in getattr(mon, 'REQUIRED_FEATURES', []):
        if merged['features'].get(name, 0) == 0:
            inconclusive.append(f'promised feature class {name} was never generated')
    lc = {}
    for name, info in merged['linecov'].items():
        if info.get('missing'):
            lc[name] = 'function not found (renamed?): not covered, oracle at the API still applies'
            continue
        lc[name] = {'lines_hit': len(info['lines_hit']), 'lines_total': info['lines_total']}

    lines = []
    known_report = {}
    for key, f in open_f.items():
        vs = known.get(key, [])
        n = sum(c for k, c in merged['violation_counts'].items()
                if k.split('|')[0] == key and k.split('|', 1)[1] in f['clauses'])
        known_report[key] = dict(reproduced=bool(vs), cases=n,
                                 confirmation_cases=merged['streams'].get(key, 0))
        if vs:
            lines.append(f"KNOWN-FINDING: property={prop} {key}: {f['what']} (witness: {vs[0]['msg'][:160]})")
    replays = []
    for (stream, clause), vs in sorted(new.items()):
        path = write_replay(prop, tier, seed, vs[0])
        replays.append(path)
        lines.append(f'VIOLATION property={prop} replay={path}')
        lines.append(f'  clause={clause} stream={stream} count={merged["violation_counts"].get(stream + "|" + clause, len(vs))} :: {vs[0]["msg"][:400]}')

    n_new = sum(merged['violation_counts'].get(s + '|' + c, len(vs)) for (s, c), vs in new.items())
    cov = dict(evaluations=int(merged['evaluations']), distinct_nontrivial=len(merged['classes']),
               rule=mon.RULE, samples=merged['samples'][:6] or ['(none)'],
               exhaustive=bool(getattr(mon, 'EXHAUSTIVE', {}).get(tier, False)),
               nontrivial_evaluations=merged['nontrivial'], features=dict(merged['features']),
               streams=dict(merged['streams']), expected_rejections=dict(merged['rejected']),
               monitor_counters=dict(merged['counters']), mechanism_lines=lc, known_findings=known_report,
               case_timeouts=merged['timeouts'], shards=nshards,
               harness_generator_restarts=[e[-600:] for e in merged['generator_errors'][:3]],
               verdict='violated' if new else ('inconclusive' if inconclusive else 'held on what was observed'),
               inconclusive_reasons=inconclusive, repo=env.REPO)
    ev = dict(property_id=prop, tier=tier, seed=seed, level=mon.LEVEL, coverage=cov,
              assumptions=list(getattr(mon, 'ASSUMPTIONS', [])), wall_s=round(time.time() - t0, 2),
              violations=int(n_new))
    with open(evidence_path, 'w') as fh:
        json.dump(ev, fh, indent=1, default=str)
    shutil.rmtree(workdir, ignore_errors=True)
    for ln in lines:
        print(ln)
    print(f"{prop} {tier} seed={seed}: {cov['verdict']}; evaluations={cov['evaluations']} "
          f"distinct_nontrivial={cov['distinct_nontrivial']} streams={dict(merged['streams'])} wall={ev['wall_s']}s")
    if new:
        return 1
    if inconclusive:
        for r in inconclusive:
            print(f'INCONCLUSIVE property={prop} reason={r[:600]}')
        return 2
    return 0


def run_replay(prop, path):
    from .worker import load_monitor, run_one
    env.load()
    mon = load_monitor(prop)
    if hasattr(mon, 'setup'):
        mon.setup()
    with open(path) as fh:
        rec = json.load(fh)
    res = run_one(mon, rec['case'], 600)
    vs = res.get('violations', [])
    for v in vs:
        print(f"clause={v['clause']} :: {v.get('msg', '')}")
    hit = [v for v in vs if v['clause'] == rec.get('clause')]
    if hit:
        print(f'VIOLATION property={prop} replay={path}')
        return 1
    print(f'replay {path}: recorded clause {rec.get("clause")!r} did not reproduce ({len(vs)} other violation(s))')
    return 1 if vs else 0
