"""small helpers shared by the monitors"""
import json

import networkx as nx


def graph_from_ref(nodes, edges, attr='fragname'):
    g = nx.Graph()
    for i, n in enumerate(nodes):
        g.add_node(i, **{attr: n['name'] if isinstance(n, dict) else n[0]})
    for (a, b), o in edges.items():
        g.add_edge(a, b, order=o)
    return g


def edge_table(g, attr='order', default=None):
    return {(min(a, b), max(a, b)): d.get(attr, default) for a, b, d in g.edges(data=True)}


def iso(g1, g2, node_keys=('fragname',), edge_keys=('order',), timeout_nodes=None):
    if len(g1) != len(g2) or g1.number_of_edges() != g2.number_of_edges():
        return False
    nm = (lambda a, b: all(a.get(k) == b.get(k) for k in node_keys)) if node_keys else None
    em = (lambda a, b: all(a.get(k) == b.get(k) for k in edge_keys)) if edge_keys else None
    return nx.is_isomorphic(g1, g2, node_match=nm, edge_match=em)


def jsonable(x):
    return json.loads(json.dumps(x, default=str))


def canonical_dump(g):
    """deterministic text dump of a graph incl. all attributes (floats via repr)"""
    def norm(v):
        if isinstance(v, nx.Graph):
            return canonical_dump(v)
        if isinstance(v, dict):
            return {str(k): norm(x) for k, x in sorted(v.items(), key=lambda kv: str(kv[0]))}
        if isinstance(v, (list, tuple)):
            return [norm(x) for x in v]
        if isinstance(v, float):
            return repr(v)
        try:
            import numpy as np
            if isinstance(v, np.ndarray):
                return [repr(float(x)) for x in v.ravel()]
            if isinstance(v, np.generic):
                return repr(v.item())
        except ImportError:
            pass
        return v if isinstance(v, (int, str, bool, type(None))) else repr(v)
    nodes = [[repr(n), norm(dict(d))] for n, d in g.nodes(data=True)]
    edges = sorted([sorted([repr(a), repr(b)]) + [norm(dict(d))] for a, b, d in g.edges(data=True)], key=lambda e: (e[0], e[1]))
    return json.dumps({'nodes': nodes, 'edges': edges}, sort_keys=True)
