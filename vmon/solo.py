"""Reference runner for the pure-function model (C12, C17): computes the result of each input ALONE,
in a freshly forked process with pristine module state, under the hash seed of this interpreter.
stdin: JSON list of jobs; stdout: JSON list of results (sha256 of the canonical dump, or 'EXC:...')."""
import hashlib
import json
import os
import sys

from . import env


def compute(job):
    from . import util
    from .monitors import molcommon as MC
    kind = job['kind']
    if kind == 'resolve':
        r = MC.make_resolver(job['case'], **job.get('kw', {}))
        cg, aa = r.resolve_all()
        return util.canonical_dump(cg) + '\n' + util.canonical_dump(aa)
    if kind == 'sample':
        from .monitors import samplercommon as SC
        mol = SC.construct_and_sample(job['config'])
        return util.canonical_dump(mol)
    raise ValueError(kind)


def digest(job):
    try:
        return hashlib.sha256(compute(job).encode()).hexdigest()
    except Exception as err:
        return f'EXC:{type(err).__name__}:{str(err)[:200]}'


def main():
    env.load()
    import cgsmiles  # noqa
    import cgsmiles.sample  # noqa
    jobs = json.load(sys.stdin)
    out = []
    devnull = os.open(os.devnull, os.O_WRONLY)
    for job in jobs:
        r, w = os.pipe()
        pid = os.fork()
        if pid == 0:
            os.close(r)
            os.dup2(devnull, 1)
            res = digest(job)
            os.write(w, res.encode())
            os._exit(0)
        os.close(w)
        data = b''
        while True:
            chunk = os.read(r, 65536)
            if not chunk:
                break
            data += chunk
        os.close(r)
        os.waitpid(pid, 0)
        out.append(data.decode() or 'EXC:child died')
    sys.stdout.write(json.dumps(out))


if __name__ == '__main__':
    main()
