"""G-grammar: ASTs of the documented CGsmiles graph grammar, unparser, textual multiplier
expansion, and an independent reference reader (recursive descent, ~100 lines).

AST:  chain   = [element, ...]
      element = {name, annot, bond, rings, mult, branches}
         bond     None (implicit) or order 0..4: symbol written before this node (bond to the previous
                  node of the chain; for the first node of a branch the order lives on the branch)
         rings    [(order|None, marker:int, pct:bool)]   pct -> written %nn
         mult     node multiplier |n  (1 = none)
         branches [{order, chain, mult, between}]   mult/between: `)` [between-symbol] `|n`
"""
import copy
import itertools

SYM = {'.': 0, '-': 1, '=': 2, '#': 3, '$': 4}
INV = {v: k for k, v in SYM.items()}


def el(name, annot=None, bond=None, rings=None, mult=1, branches=None, attrs=None):
    return dict(name=name, annot=annot, attrs=attrs, bond=bond, rings=list(rings or []), mult=mult, branches=list(branches or []))


def br(chain, order=None, mult=1, between=None):
    return dict(order=order, chain=chain, mult=mult, between=between)


def _sym(o):
    return '' if o is None else INV[o]


def node_text(e):
    return '[#' + e['name'] + (';' + e['annot'] if e.get('annot') else '') + ']'


def unparse(chain):
    s = ''
    for e in chain:
        s += _sym(e['bond']) + node_text(e) + e.get('pre_desc', '')
        for (o, m, pct) in e['rings']:
            s += _sym(o) + (str(m) if (m < 10 and not pct) else '%%%02d' % m)
        s += e.get('post_desc', '')
        if e['mult'] > 1 or e.get('force_mult'):
            s += '|%d' % e['mult']
        for b in e['branches']:
            s += _sym(b['order']) + '(' + unparse(b['chain']) + ')'
            if b['mult'] > 1 or b.get('force_mult'):
                s += _sym(b['between']) + '|%d' % b['mult']
    return s


def to_string(chain):
    return '{' + unparse(chain) + '}'


# ---------------------------------------------------------------------------------------------
# textual expansion of multipliers (the "longhand")

def expand(chain):
    """the longhand: the same AST with every multiplied unit written out"""
    out = []
    for e in chain:
        e = copy.deepcopy(e)
        e.pop('force_mult', None)
        for b in e['branches']:
            b['chain'] = expand(b['chain'])
            b.pop('force_mult', None)
        copies = []
        n = e['mult']
        e['mult'] = 1
        for k in range(n):
            c = copy.deepcopy(e)
            if k > 0:
                c['bond'] = None
            if k < n - 1:
                c['branches'] = []
            copies.append(c)
        for e in copies:
            multiplied = [b for b in e['branches'] if b['mult'] > 1]
            if not multiplied:
                out.append(e)
                continue
            assert len(multiplied) == 1, 'one multiplied branch per anchor'
            b = multiplied[0]
            n, between = b['mult'], b['between']
            b['mult'], b['between'] = 1, None
            k = next(i for i, x in enumerate(e['branches']) if x is b)
            first = copy.deepcopy(e)
            later = first['branches'][k + 1:]
            first['branches'] = first['branches'][:k + 1]
            out.append(first)
            for c in range(1, n):
                e2 = copy.deepcopy(e)
                e2['bond'] = between
                e2['rings'] = []
                e2['branches'] = [copy.deepcopy(b)]
                if c == n - 1:
                    e2['branches'] += copy.deepcopy(later)
                out.append(e2)
    return out


def has_multiplier(chain):
    for e in chain:
        if e['mult'] > 1:
            return True
        for b in e['branches']:
            if b['mult'] > 1 or has_multiplier(b['chain']):
                return True
    return False


# ---------------------------------------------------------------------------------------------
# reference semantics: the graph an AST without multipliers denotes

class RefSyntaxError(Exception):
    pass


def build(chain):
    """-> (nodes: list of dict(name, annot, attrs), edges: {(a,b): order} with a<b). Node i is the i-th node written."""
    nodes, edges, rings = [], {}, {}

    def add_edge(a, b, o):
        key = (min(a, b), max(a, b))
        if a == b or key in edges:
            raise RefSyntaxError('duplicate edge')
        edges[key] = 1 if o is None else o

    def walk(chain, prev, first_bond):
        for idx, e in enumerate(chain):
            assert e['mult'] == 1
            cur = len(nodes)
            nodes.append(dict(name=e['name'], annot=e.get('annot'), attrs=e.get('attrs')))
            if prev is not None:
                o = e['bond']
                if idx == 0 and first_bond is not None:
                    o = first_bond
                add_edge(prev, cur, o)
            for (o, m, _pct) in e['rings']:
                if m in rings:
                    a, oo = rings.pop(m)
                    add_edge(a, cur, oo if oo is not None else o)
                else:
                    rings[m] = (cur, o)
            for b in e['branches']:
                assert b['mult'] == 1
                walk(b['chain'], cur, b['order'])
            prev = cur
    walk(chain, None, None)
    if rings:
        raise RefSyntaxError('dangling ring')
    return nodes, edges


def denote(chain):
    return build(expand(chain))


# ---------------------------------------------------------------------------------------------
# reference reader from text (used on the writer's output and for the online differential check)

class _Tok:
    def __init__(self, text):
        self.t, self.i = text, 0

    def peek(self):
        return self.t[self.i] if self.i < len(self.t) else ''

    def take(self):
        c = self.t[self.i]
        self.i += 1
        return c


class NotInGrammar(Exception):
    pass


def parse(string):
    """text -> AST; raises NotInGrammar for anything outside the documented grammar"""
    if len(string) < 2 or string[0] != '{' or string[-1] != '}':
        raise NotInGrammar('braces')
    tk = _Tok(string[1:-1])

    def need(c):
        if tk.peek() != c:
            raise NotInGrammar(f'expected {c!r} at {tk.i}')
        tk.take()

    def parse_int():
        s = ''
        while tk.peek().isdigit():
            s += tk.take()
        if not s:
            raise NotInGrammar('integer expected')
        return int(s)

    def parse_node():
        need('[')
        need('#')
        s = ''
        while tk.peek() and tk.peek() != ']':
            s += tk.take()
        need(']')
        if not s:
            raise NotInGrammar('empty node')
        name, _, annot = s.partition(';')
        return name, (annot if _ else None)

    def parse_chain():
        elems, pending = [], None
        while tk.peek() and tk.peek() != ')':
            c = tk.peek()
            if c in SYM:
                if pending is not None:
                    raise NotInGrammar('two bond symbols')
                pending = SYM[tk.take()]
                continue
            if c != '[':
                raise NotInGrammar(f'unexpected {c!r}')
            name, annot = parse_node()
            e = el(name, annot, bond=pending)
            pending = None
            while True:   # ring bonds
                save = tk.i
                o = SYM[tk.take()] if tk.peek() in SYM else None
                if tk.peek().isdigit():
                    e['rings'].append((o, int(tk.take()), False))
                elif tk.peek() == '%':
                    tk.take()
                    e['rings'].append((o, parse_int(), True))
                else:
                    tk.i = save
                    break
            if tk.peek() == '|':
                if e['rings']:
                    raise NotInGrammar('multiplier after ring marker')
                tk.take()
                e['mult'] = parse_int()
            while True:   # branches
                save = tk.i
                o = SYM[tk.take()] if tk.peek() in SYM else None
                if tk.peek() == '(':
                    tk.take()
                    sub = parse_chain()
                    if not sub:
                        raise NotInGrammar('empty branch')
                    need(')')
                    b = br(sub, order=o)
                    save2 = tk.i
                    bb = SYM[tk.take()] if tk.peek() in SYM else None
                    if tk.peek() == '|':
                        tk.take()
                        b['mult'], b['between'] = parse_int(), bb
                    else:
                        tk.i = save2
                    e['branches'].append(b)
                else:
                    tk.i = save
                    break
            elems.append(e)
        if pending is not None:
            raise NotInGrammar('dangling bond symbol')
        return elems
    ast = parse_chain()
    if tk.i != len(tk.t) or not ast:
        raise NotInGrammar('trailing text')
    return ast


# ---------------------------------------------------------------------------------------------
# feature analysis of an AST (drives streams and evidence)

def features(chain, depth=0, in_unit=False, out=None, state=None):
    out = set() if out is None else out
    for idx, e in enumerate(chain):
        last = idx == len(chain) - 1
        if e.get('annot'):
            out.add('annot')
        if e['bond'] is not None:
            out.add('bond_between' if not (idx > 0 and chain[idx - 1]['branches']) else 'bond_after_branch')
            if idx > 0 and chain[idx - 1]['mult'] > 1 and not chain[idx - 1]['branches']:
                out.add('bond_after_node_mult')
            if idx > 0 and any(b['mult'] > 1 for b in chain[idx - 1]['branches']):
                out.add('bond_after_branch_mult')
        for (o, m, pct) in e['rings']:
            out.add('ring_pct' if pct or m >= 10 else 'ring_digit')
            if o is not None:
                out.add('ring_bond_symbol')
            if depth:
                out.add('ring_in_branch')
            if in_unit:
                out.add('ring_in_mult_unit')
        if e['mult'] > 1:
            out.add('node_mult')
            if idx == 0 and depth == 0:
                out.add('node_mult_first')
            if in_unit:
                out.add('node_mult_in_mult_unit')
        if e.get('force_mult'):
            out.add('mult_one')
        if e['branches']:
            out.add('branch')
            out.add('depth%d' % min(depth + 1, 5))
            if len(e['branches']) > 1:
                out.add('sibling_branches')
            if last and depth > 0:
                out.add('double_close')
            if e['mult'] > 1:
                out.add('branch_on_node_mult')
                if e['branches'][0]['order'] is not None:
                    out.add('bond_after_node_mult')
        for k, b in enumerate(e['branches']):
            if b['order'] is not None:
                out.add('bond_before_branch')
            unit = in_unit or b['mult'] > 1
            if b['mult'] > 1:
                out.add('branch_mult')
                if depth:
                    out.add('branch_mult_nested_position')
                if b['between'] is not None:
                    out.add('branch_mult_between')
                if any(x['branches'] for x in b['chain']):
                    # the expansion of a unit with a nested branch is right (probed on 1000+ strings) exactly when the
                    # anchor is not the first written node, the unit is repeated twice, it is the anchor's first branch and
                    # it holds ONE nested branch without further nesting; everything else is the open finding's class
                    nested = [bb for x in b['chain'] for bb in x['branches']]
                    simple = (b['mult'] == 2 and k == 0 and not (depth == 0 and idx == 0) and len(nested) == 1
                              and not any(y['branches'] for y in nested[0]['chain']) and not b['chain'][-1]['branches']
                              and nested[0]['mult'] == 1 and not nested[0].get('force_mult') and e['mult'] == 1 and not e.get('force_mult')
                              and all(y['mult'] == 1 and not y.get('force_mult') for y in list(b['chain']) + list(nested[0]['chain'])))
                    out.add('nested_branch_in_mult_unit_simple' if simple else 'nested_branch_in_mult_unit')
                if e['rings']:
                    out.add('ring_on_mult_anchor')
                if k < len(e['branches']) - 1 or k > 0:
                    out.add('mult_branch_with_siblings')
                if k > 0:
                    out.add('mult_branch_after_sibling')
                if in_unit:
                    out.add('branch_mult_in_mult_unit')
                if _unit_has_nondefault_before_mult(b['chain'], b['order']):
                    out.add('node_mult_after_bond_in_mult_unit')
            if b.get('force_mult'):
                out.add('mult_one')
                if any(x['branches'] for x in b['chain']):
                    out.add('nested_branch_in_mult_unit')
            st = {'closed': []} if depth == 0 else state
            # stale recipes: nested branches of the same outermost branch that were closed earlier and
            # hang on ANOTHER anchor (a sibling on the same anchor overwrites its recipe in place)
            if depth >= 1 and (b['mult'] > 1 or b.get('force_mult')) and any(a is not e for a in st['closed']):
                out.add('nested_mult_after_nested_branch')
            features(b['chain'], depth + 1, unit, out, st)
            if depth >= 1:
                st['closed'].append(e)
    return out


def _unit_has_nondefault_before_mult(chain, first_order=None):
    for idx, e in enumerate(chain):
        o = first_order if idx == 0 else e['bond']
        if e['mult'] > 1 and o not in (None, 1):
            return True
    return False


def count_nodes(chain):
    n = 0
    for e in chain:
        n += e['mult']
        for b in e['branches']:
            n += count_nodes(b['chain']) * 1
    return n


# ---------------------------------------------------------------------------------------------
# random ASTs

NAMES = ['A', 'B', 'C', 'PEO', 'PMA', 'X1', 'a2b', 'OH', '2VP', '12', '0x', '01', '1E5']


def random_ast(rng, n_nodes, max_depth=3, p_branch=0.35, p_bond=0.3, n_rings=0, p_mult_node=0.0,
               p_mult_branch=0.0, p_annot=0.0, p_trailing_branch=0.0, names=NAMES, annot_fn=None,
               orders=(0, 1, 2, 3, 4), max_mult=4, p_pct=0.3):
    """random AST with exactly n_nodes *written* nodes"""
    budget = [n_nodes]

    def make_chain(depth, want):
        chain = []
        remaining = want
        while remaining > 0:
            budget[0] -= 1
            remaining -= 1
            e = el(rng.choice(names))
            if p_annot and rng.random() < p_annot and annot_fn:
                e['annot'], e['attrs'] = annot_fn(rng)
            if chain and rng.random() < p_bond:
                e['bond'] = rng.choice(orders)
            if rng.random() < p_mult_node:
                e['mult'] = rng.randint(2, max_mult)
            # branches
            while remaining > 0 and depth < max_depth and rng.random() < p_branch:
                # the branch takes 1..remaining nodes; keep at least one for the continuation
                # unless a trailing branch is wanted
                trailing = rng.random() < p_trailing_branch
                hi = remaining if trailing else remaining - 1
                if hi < 1:
                    break
                take = rng.randint(1, min(hi, 6))
                remaining -= take
                sub = make_chain(depth + 1, take)
                b = br(sub, order=rng.choice(orders) if rng.random() < p_bond else None)
                if rng.random() < p_mult_branch and not any(x['mult'] > 1 for x in e['branches']):
                    b['mult'] = rng.randint(2, max_mult)
                    if rng.random() < 0.4:
                        b['between'] = rng.choice(orders)
                e['branches'].append(b)
            chain.append(e)
        return chain

    ast = make_chain(0, n_nodes)
    # the very same annotated node text more than once in one string (and, over a run, in many strings)
    flat_ = _flat(ast)
    annotated_ = [e for e, _, _, _ in flat_ if e.get('annot')]
    if annotated_ and len(flat_) >= 2 and rng.random() < 0.35:
        src_ = rng.choice(annotated_)
        for dst_ in rng.sample([e for e, _, _, _ in flat_], min(len(flat_), rng.choice([1, 2]))):
            dst_['name'], dst_['annot'], dst_['attrs'] = src_['name'], src_['annot'], copy.deepcopy(src_.get('attrs'))
    # bond symbols directly after a node multiplier are valid grammar but a separate feature
    if n_rings:
        add_rings(rng, ast, n_rings, orders=orders, p_bond=p_bond, p_pct=p_pct)
    return ast


def _flat(chain, depth=0, unit=0, acc=None, parent=None):
    """elements in order of appearance with (element, depth, unit-id or 0, parent element)"""
    acc = [] if acc is None else acc
    prev = parent
    for e in chain:
        acc.append((e, depth, unit, prev))
        for b in e['branches']:
            u = unit
            if b['mult'] > 1 and not u:
                u = id(b)
            _flat(b['chain'], depth + 1, u, acc, e)
        prev = e
    return acc


def add_rings(rng, ast, n_rings, orders=(0, 1, 2, 3, 4), p_bond=0.3, p_pct=0.3, in_unit=False):
    """add ring bonds between non-adjacent written nodes; markers are unique among simultaneously
    open rings; the bond symbol (if any) is written at the opening marker (documented position)."""
    flat = _flat(ast)
    anchors_of_mult = {id(e) for e, _, _, _ in flat if any(b['mult'] > 1 for b in e['branches'])}
    if in_unit:
        cand = [i for i, (e, d, u, p) in enumerate(flat) if e['mult'] == 1 and u]
    else:
        cand = [i for i, (e, d, u, p) in enumerate(flat)
                if e['mult'] == 1 and not u and id(e) not in anchors_of_mult]
    adjacent = set()
    for i, (e, d, u, p) in enumerate(flat):
        if p is not None:
            j = next(k for k, x in enumerate(flat) if x[0] is p)
            adjacent.add((min(i, j), max(i, j)))
    # nodes next to a multiplied node are adjacent to a copy, not to the written node: be conservative
    open_iv = []   # (i, j, marker)
    made = 0
    tries = 0
    while made < n_rings and tries < 40 and len(cand) >= 2:
        tries += 1
        i, j = sorted(rng.sample(cand, 2))
        if (i, j) in adjacent:
            continue
        if in_unit and flat[i][2] != flat[j][2]:
            continue
        ei, ej = flat[i][0], flat[j][0]
        # a multiplied node between/adjacent makes adjacency ambiguous only for the multiplied node itself (excluded)
        # a marker is free again on the very node that closes it: '[#C]11' closes ring 1 and opens a new ring 1
        used = {m for (a, b, m) in open_iv if not (b <= i or a >= j)}
        touching = [m for (a, b, m) in open_iv if (b == i or a == j) and m not in used]
        pct = rng.random() < p_pct
        pool = [m for m in (range(0, 100) if pct else range(0, 10)) if m not in used]
        if pct and rng.random() < 0.7:
            pool = [m for m in pool if m >= 10] or pool
        if not pool:
            continue
        m = rng.choice(pool)
        if touching and rng.random() < 0.5:
            m = rng.choice(touching)
            pct = pct or m >= 10
        o = rng.choice(orders) if rng.random() < p_bond else None
        # keep %nn markers last on a node so that no bare digit follows them
        # markers are read left to right: on a node that carries the same marker twice the closing one comes first.
        # The same spelling (digit / %nn) as the entry already there keeps that order through the stable sort below.
        same_i = [r for r in ei['rings'] if r[1] == m]
        same_j = [k for k, r in enumerate(ej['rings']) if r[1] == m]
        ei['rings'].append((o, m, same_i[0][2] if same_i else pct))
        if same_j:
            ej['rings'].insert(same_j[0], (None, m, ej['rings'][same_j[0]][2]))
        else:
            ej['rings'].append((None, m, pct))
        for e in (ei, ej):
            e['rings'].sort(key=lambda r: (r[2] or r[1] >= 10))
        adjacent.add((i, j))
        open_iv.append((i, j, m))
        made += 1
    return made


# ---------------------------------------------------------------------------------------------
# exhaustive small ASTs

def ordered_trees(n):
    """all ordered rooted trees with n nodes as nested lists of children"""
    if n == 1:
        yield []
        return
    # children sizes compositions
    def forests(k):
        if k == 0:
            yield []
            return
        for first in range(1, k + 1):
            for t in ordered_trees(first):
                for rest in forests(k - first):
                    yield [t] + rest
    yield from forests(n - 1)


def tree_to_ast(tree, names, orders, trailing, counter=None):
    """tree: nested children lists (preorder). names: per node (preorder) name; orders: per non-root
    node the bond order/None to its parent; trailing: set of preorder ids whose last child is written
    as a branch instead of the chain continuation."""
    counter = counter if counter is not None else [0]

    def make(t):
        """returns chain starting at this node"""
        me = counter[0]
        counter[0] += 1
        e = el(names[me])
        chain = [e]
        kids = list(t)
        for k, child in enumerate(kids):
            cid = counter[0]
            sub = make(child)
            o = orders[cid]
            if k == len(kids) - 1 and me not in trailing:
                sub[0]['bond'] = o
                chain += sub
            else:
                e['branches'].append(br(sub, order=o))
        return chain
    return make(tree)


def enumerate_small(n, order_choices=(None, 0, 1, 2), name_choices=('A', 'B'), with_trailing=True):
    """all ASTs with n nodes over the tree shapes, edge orders and the trailing-branch spelling;
    names alternate by a fixed pattern per case to keep the space small (names do not interact
    with the scanner state)."""
    for tree in ordered_trees(n):
        for orders in itertools.product(order_choices, repeat=n - 1):
            od = {i + 1: o for i, o in enumerate(orders)}
            names = [name_choices[(i * 7 + len(orders)) % len(name_choices)] for i in range(n)]
            yield tree_to_ast(tree, names, od, set())
            if with_trailing:
                # each single node written with a trailing branch
                for t in range(n):
                    ast = tree_to_ast(tree, names, od, {t})
                    if 'T' in _mark_trailing(ast):
                        yield ast


def _mark_trailing(chain):
    s = ''
    for idx, e in enumerate(chain):
        if e['branches'] and idx == len(chain) - 1:
            s += 'T'
        for b in e['branches']:
            s += _mark_trailing(b['chain'])
    return s
