"""Annotation generator and independent annotation model (C04, C14).

Documented semantics (docs/source/syntax/basic_graph_description.rst): `symbol=value` pairs
separated by ';'.  Reserved symbols behave like arguments of a Python function: they have a
default, and the keyword may be omitted if the previous positions are filled.  Base graph / coarse:
q -> charge (float, default 0.0), w -> weight (float, default 1.0).  Fragment atoms (the dialect in
force for atomistic *and* coarse fragments): w -> weight (float, 1.0), x -> chiral (S or R, no default).
"""
RESERVED = {
    'base': [('q', 'charge', 'num', 0.0), ('w', 'weight', 'num', 1.0)],
    'frag': [('w', 'weight', 'num', 1.0), ('x', 'chiral', 'str', None)],
}
NUMS = [('1', 1.0), ('+1', 1.0), ('-0.25', -0.25), ('1e-1', 0.1), ('0', 0.0), ('2.5', 2.5), ('-1', -1.0),
        ('0.5', 0.5), ('.5', 0.5), ('3', 3.0), ('0.75', 0.75), ('-2e0', -2.0), ('12', 12.0), ('0.2', 0.2)]
FREE_KEYS = ['mass', 'm', 'k', 'lab', 'z9', 'Tg', 'note', 'b', '_type', '_q', 'order', 'node']
FREE_VALS = ['abc', '72', '1.5', 'a_b', 'X', '0', 'R2', 'tail', '+1', 'e-3', 'left arm', 'p(R)', 'R|S', 'a{b', 'x)']
DEFAULT_SPELL = {0.0: ['0', '0.0', '+0'], 1.0: ['1', '1.0', '+1']}


def random_assignment(rng, level, p_reserved=0.6, max_free=2):
    """-> dict short-key -> (text, value) for reserved keys that are set, dict of free keys"""
    res = {}
    for short, _long, kind, _default in RESERVED[level]:
        if rng.random() < p_reserved:
            res[short] = rng.choice(NUMS) if kind == 'num' else rng.choice([('R', 'R'), ('S', 'S')])
    free = {}
    # a symbol that is reserved at the OTHER level is an ordinary free key here (x on base-graph nodes, q on fragment atoms)
    for key in rng.sample(FREE_KEYS + (['x', 'x'] if level == 'base' else ['q', 'q']), rng.randint(0, max_free)):
        free[key] = rng.choice(FREE_VALS)
    return res, free


def expected(level, res, free):
    out = {}
    for short, long_, _kind, default in RESERVED[level]:
        if short in res:
            out[long_] = res[short][1]
        elif default is not None:
            out[long_] = default
    out.update(free)
    return out


def spell(rng, level, res, free, n_positional=None, shuffle=True):
    """one spelling of the assignment: a positional prefix followed by keywords in random order"""
    order = RESERVED[level]
    max_pos = 0
    # positional prefix may extend over unassigned keys by spelling out their default
    for i, (short, _l, _k, default) in enumerate(order):
        if short in res or default is not None:
            max_pos = i + 1
        else:
            break
    if n_positional is None:
        n_positional = rng.randint(0, max_pos)
    n_positional = min(n_positional, max_pos)
    # do not end the positional prefix on a spelled-out default (pointless but legal): allowed anyway
    entries = []
    for short, _l, _k, default in order[:n_positional]:
        if short in res:
            entries.append(res[short][0])
        else:
            entries.append(rng.choice(DEFAULT_SPELL[default]))
    kws = [(s, res[s][0]) for s, _l, _k, _d in order[n_positional:] if s in res] + list(free.items())
    if shuffle:
        rng.shuffle(kws)
    entries += [f'{k}={v}' for k, v in kws]
    return ';'.join(entries)


def random_annotation(rng, level, p_reserved=0.6, max_free=2):
    """-> (text or None, expected attribute dict)"""
    res, free = random_assignment(rng, level, p_reserved, max_free)
    text = spell(rng, level, res, free)
    return (text or None), expected(level, res, free)


def model(level, text):
    """independent reading of an annotation text produced within the documented rules"""
    res_spec = RESERVED[level]
    out, pos, kw = {}, [], {}
    if text:
        for ent in text.split(';'):
            if '=' in ent:
                k, v = ent.split('=')
                kw[k] = v
            else:
                pos.append(ent)
    vals = {}
    for (short, long_, kind, default), v in zip(res_spec, pos):
        vals[short] = v
    for short, long_, kind, default in res_spec:
        if short in kw:
            vals[short] = kw.pop(short)
        if short in vals:
            out[long_] = float(vals[short]) if kind == 'num' else vals[short]
        elif default is not None:
            out[long_] = default
    out.update(kw)
    return out
