"""G-mol / G-cut / G-render: random molecules with ground truth, connected partitions with uniquely
labelled complementary descriptors, and randomised SMILES renderings of each fragment.
Independent of cgsmiles and pysmiles."""
import itertools
import string

import networkx as nx

# usual valences (element, formal charge) -> increasing list
VAL = {('C', 0): [4], ('N', 0): [3, 5], ('O', 0): [2], ('S', 0): [2, 4, 6], ('P', 0): [3, 5],
       ('F', 0): [1], ('Cl', 0): [1], ('Br', 0): [1], ('I', 0): [1], ('N', 1): [4], ('O', -1): [1],
       ('S', -1): [1], ('O', 1): [3], ('N', -1): [2], ('C', -1): [3], ('B', 0): [3], ('Si', 0): [4],
       ('H', 0): [1], ('P', 1): [4], ('S', 1): [3, 5],
       # main-group elements outside the SMILES organic subset (bracket atoms of silicones, selenols, boranes, germanes, arsines)
       ('Se', 0): [2, 4, 6], ('Ge', 0): [4], ('As', 0): [3, 5], ('Te', 0): [2, 4, 6]}
ATOMS = [('C', 0)] * 12 + [('N', 0)] * 3 + [('O', 0)] * 3 + [('S', 0)] * 2 + [('P', 0)] + \
        [('F', 0), ('Cl', 0), ('Br', 0)] + [('N', 1), ('O', -1)]
MASS = {'H': 1.008, 'C': 12.011, 'N': 14.007, 'O': 15.999, 'S': 32.06, 'P': 30.974, 'F': 18.998,
        'Cl': 35.45, 'Br': 79.904}
SYM = {0: '.', 1: '', 2: '=', 3: '#', 1.5: ''}


def used(g, n):
    """valence in use; an aromatic atom spends one unit per sigma bond plus one for the pi system (so that
    the atom shared by two fused aromatic rings, with three aromatic bonds, uses 4)"""
    if g.nodes[n].get('aromatic'):
        return sum(1 if d['order'] == 1.5 else d['order'] for _, _, d in g.edges(n, data=True)) + 1
    return sum(d['order'] for _, _, d in g.edges(n, data=True))


def free(g, n):
    return g.nodes[n]['cap'] - used(g, n)


def hcount_for(el, ch, bonds):
    vals = VAL[(el, ch)]
    fit = [v for v in vals if v >= bonds]
    if not fit:
        return None
    return int(round(fit[0] - bonds))


def dime_safe(g):
    """True if the only cycles among atoms that carry a double/aromatic bond are the generator's own
    aromatic six-rings, so that the documented (pysmiles DIME) aromaticity agrees with the ground truth."""
    d_atoms = {n for n in g if any(d['order'] in (2, 1.5) for _, _, d in g.edges(n, data=True))}
    sub = g.subgraph(d_atoms)
    cyclomatic = sub.number_of_edges() - sub.number_of_nodes() + nx.number_connected_components(sub) if len(sub) else 0
    rings = {g.nodes[n]['ring'] for n in g if g.nodes[n].get('ring') is not None}
    return cyclomatic == len(rings)


def gen_molecule(rng, max_heavy=12, p_arom=0.3, p_ring=0.25, charged=True, hetero=True, triple=True, lowest_valence=False, p_fused=0.0, p_thio=0.0, p_het5=0.0, p_lower5=0.0):
    for _ in range(200):
        g = _gen_once(rng, max_heavy, p_arom, p_ring, charged, hetero, triple, lowest_valence, p_fused, p_thio, p_het5, p_lower5)
        if g is not None and dime_safe(g):
            return g
    raise RuntimeError('molecule generator failed')


def _gen_once(rng, max_heavy, p_arom, p_ring, charged, hetero, triple, lowest_valence=False, p_fused=0.0, p_thio=0.0, p_het5=0.0, p_lower5=0.0):
    g = nx.Graph()
    nring = [0]

    def add_atom(kind=None, aromatic=False, ring=None):
        el, ch = kind or rng.choice(ATOMS)
        if not charged and ch != 0:
            el, ch = 'C', 0
        if not hetero and kind is None:
            el, ch = 'C', 0
        n = len(g)
        cap = (VAL[(el, ch)][0] if lowest_valence else rng.choice(VAL[(el, ch)])) if not aromatic else {'C': 4, 'N': 3}[el]
        g.add_node(n, element=el, charge=ch, aromatic=aromatic, cap=cap, ring=ring)
        return n

    def add_arom_ring(anchor):
        kinds = [('C', 0)] * 6
        for i in rng.sample(range(1, 6), rng.choice([0, 0, 0, 1, 2])):
            kinds[i] = ('N', 0)
        rid = nring[0]
        nring[0] += 1
        ring = [add_atom(k, aromatic=True, ring=rid) for k in kinds]
        for a, b in zip(ring, ring[1:] + ring[:1]):
            g.add_edge(a, b, order=1.5)
        if anchor is not None:
            g.add_edge(anchor, ring[0], order=1)

    def add_fused_ring():
        """ortho-fuse another aromatic six-ring onto an unsubstituted aromatic C-C ring bond (naphthalene, quinoline,
        anthracene, phenanthrene ...): all ring bonds, the shared one included, are aromatic"""
        bonds = [(a, b) for a, b, d in g.edges(data=True) if d['order'] == 1.5
                 and all(g.nodes[x]['element'] == 'C' and g.degree(x) == 2 for x in (a, b))]
        if not bonds:
            return False
        a, b = rng.choice(bonds)
        kinds = [('C', 0)] * 4
        if rng.random() < 0.3:
            kinds[rng.randrange(4)] = ('N', 0)
        rid = nring[0]
        nring[0] += 1
        new = [add_atom(k, aromatic=True, ring=rid) for k in kinds]
        for x, y in zip([a] + new, new + [b]):
            g.add_edge(x, y, order=1.5)
        return True

    def add_het5_ring(anchor):
        """pyrrole / furan / thiophene / imidazole skeleton in Kekule form (X1C=CC=C1): under the aromaticity definition the
        documentation adopts its ring bonds are plain single and double bonds (X carries no double bond)"""
        x = rng.choice([('N', 0), ('N', 0), ('O', 0), ('S', 0)])
        kinds = [x, ('C', 0), ('C', 0), ('C', 0), ('C', 0)]
        if rng.random() < 0.3:
            kinds[rng.choice([2, 3])] = ('N', 0)        # imidazole / oxazole / thiazole
        ring = [add_atom(k) for k in kinds]
        for n in ring:
            g.nodes[n]['cap'] = VAL[(g.nodes[n]['element'], 0)][0]
        for (a, b), o in zip(zip(ring, ring[1:] + ring[:1]), [1, 2, 1, 2, 1]):
            g.add_edge(a, b, order=o)
        if anchor is not None:
            att = [n for n in ring if free(g, n) >= 1]
            g.add_edge(anchor, rng.choice(att), order=1)
        g.graph.setdefault('het5', []).append(ring)

    target = rng.randint(1, max_heavy)
    if p_het5 and rng.random() < p_het5 and target >= 5:
        add_het5_ring(None)
    elif rng.random() < p_arom and target >= 6:
        add_arom_ring(None)
        while rng.random() < p_fused and len(g) + 4 <= max_heavy + 4 and nring[0] < 4:
            if not add_fused_ring():
                break
    else:
        add_atom()
    tries = 0
    while len(g) < target and tries < 300:
        tries += 1
        cands = [n for n in g if free(g, n) >= 1]
        if not cands:
            break
        a = rng.choice(cands)
        r = rng.random()
        if p_het5 and r > 1 - p_het5 * 0.3 and len(g) + 5 <= max_heavy + 4 and not g.nodes[a]['aromatic']:
            add_het5_ring(a)
            continue
        if r < p_arom * 0.5 and len(g) + 6 <= max_heavy + 4:
            add_arom_ring(a)
            if rng.random() < p_fused and len(g) + 4 <= max_heavy + 4:
                add_fused_ring()
            continue
        if r < p_arom * 0.5 + p_ring * 0.5:
            if g.nodes[a]['aromatic']:
                continue
            d = nx.single_source_shortest_path_length(g, a, cutoff=7)
            c2 = [n for n in cands if 2 <= d.get(n, 0) <= 6 and not g.nodes[n]['aromatic']]
            if c2:
                b = rng.choice(c2)
                o = 1 if rng.random() < 0.8 else int(min(2, free(g, a), free(g, b)))
                g.add_edge(a, b, order=o)
                continue
        b = add_atom()
        mo = int(min(free(g, a), g.nodes[b]['cap'], 3 if triple else 2))
        if g.nodes[a]['aromatic']:
            mo = 1
        o = rng.choice([1, 1, 1, 2, 3][:{1: 3, 2: 4, 3: 5}[max(1, mo)]])
        g.add_edge(a, b, order=o)
    if p_thio and rng.random() < p_thio:
        # aryl thioethers / thiols: written 'Sc...', the one everyday pair of an aliphatic and an aromatic atom whose
        # letters also spell an element symbol
        cand = [n for n in g if not g.nodes[n]['aromatic'] and g.nodes[n]['element'] == 'C' and g.nodes[n]['charge'] == 0 and g.degree(n) <= 2
                and all(d['order'] == 1 for _, _, d in g.edges(n, data=True)) and any(g.nodes[x]['aromatic'] for x in g[n])]
        if cand:
            g.nodes[rng.choice(cand)].update(element='S', cap=2)
    for n in g:
        d = g.nodes[n]
        h = hcount_for(d['element'], d['charge'], used(g, n))
        if h is None:
            return None
        d['hcount'] = h
    for ring in g.graph.get('het5', []):
        # pyrrole / imidazole rings with a free N-H may also be WRITTEN in lower case (c1cc[nH]c1): the library accepts that
        # spelling and turns it into the same Kekule structure (the ground truth keeps single and double bonds)
        x = ring[0]
        # (a lower-case ring bonded directly to another lower-case / aromatic atom is left in Kekule form: the library
        # kekulises all lower-case atoms together and may move a double bond onto the explicitly single bond between them)
        touching = any((g.nodes[y].get('lower') or g.nodes[y].get('aromatic')) for n in ring for y in g[n] if y not in ring)
        if g.nodes[x]['element'] == 'N' and g.nodes[x]['hcount'] == 1 and not touching and rng.random() < p_lower5:
            for n in ring:
                g.nodes[n]['lower'] = True
            for a, b in zip(ring, ring[1:] + ring[:1]):
                g.edges[a, b]['lower'] = True
    return g


LOWER_EXO = {
    # name: (ring size, exocyclic =O on these ring atoms, ring double bonds (i, i+1), ring nitrogens (N-H))
    '2-pyridone': (6, [0], [(1, 2), (3, 4)], [5]),
    '4-pyridone': (6, [0], [(1, 2), (4, 5)], [3]),
    'p-benzoquinone': (6, [0, 3], [(1, 2), (4, 5)], []),
    'tropone': (7, [0], [(1, 2), (3, 4), (5, 6)], []),
    'uracil': (6, [0, 4], [(1, 2)], [3, 5]),
}


def gen_lower_exo_molecule(rng):
    """pyridone / quinone / tropone / uracil skeletons: rings that SMILES tools write in lower case although they carry an
    exocyclic double bond (O=c1cccc[nH]1).  Ground truth is the (unique) Kekule structure; ring atoms and ring bonds are
    flagged 'lower' so that the renderer writes them in lower case with the exocyclic '=O' spelled out.  Ring carbons
    and nitrogens carry short saturated substituents, which is where (together with the C=O bonds) cuts can go."""
    name = rng.choice(sorted(LOWER_EXO))
    size, exo, dbl, nitro = LOWER_EXO[name]
    g = nx.Graph()
    for i in range(size):
        el = 'N' if i in nitro else 'C'
        g.add_node(i, element=el, charge=0, aromatic=False, cap=VAL[(el, 0)][0], ring=0, lower=True)
    for i in range(size):
        j = (i + 1) % size
        g.add_edge(i, j, order=2 if (i, j) in dbl or (j, i) in dbl else 1, lower=True)

    def add(el, parent, order=1):
        n = len(g)
        g.add_node(n, element=el, charge=0, aromatic=False, cap=VAL[(el, 0)][0], ring=None)
        g.add_edge(parent, n, order=order)
        return n
    for i in exo:
        add('O', i, order=2)
    free_ring = [i for i in range(size) if free(g, i) >= 1]
    rng.shuffle(free_ring)
    for i in free_ring[:rng.randint(1, 3)]:
        prev = add('C', i)
        for _ in range(rng.randint(0, 2)):
            prev = add(rng.choice(['C', 'C', 'O', 'N']), prev)
    for n in g:
        d = g.nodes[n]
        d['hcount'] = hcount_for(d['element'], d['charge'], used(g, n))
    g.graph['skeleton'] = name
    return g


def truth_graph(g):
    """heavy-atom ground truth: element, charge, nh on nodes; order on edges"""
    t = nx.Graph()
    for n, d in g.nodes(data=True):
        t.add_node(n, element=d['element'], charge=d['charge'], nh=d['hcount'])
    for a, b, d in g.edges(data=True):
        t.add_edge(a, b, order=d['order'])
    return t


def collapse_h(mol):
    """result molecule -> (heavy graph with nh, list of problems with hydrogens)"""
    problems = []
    t = nx.Graph()
    for n, d in mol.nodes(data=True):
        if d.get('element') != 'H':
            t.add_node(n, element=d.get('element'), charge=d.get('charge', 0), nh=0)
    for a, b, d in mol.edges(data=True):
        ha, hb = mol.nodes[a].get('element') == 'H', mol.nodes[b].get('element') == 'H'
        if ha and hb:
            problems.append(f'H-H bond {a}-{b}')
        elif ha or hb:
            h, x = (a, b) if ha else (b, a)
            if mol.degree(h) != 1:
                problems.append(f'hydrogen {h} has degree {mol.degree(h)}')
            if d.get('order', 1) != 1:
                problems.append(f'X-H bond {a}-{b} has order {d.get("order")}')
            t.nodes[x]['nh'] += 1
        else:
            t.add_edge(a, b, order=d.get('order', 1))
    for n, d in mol.nodes(data=True):
        if d.get('element') == 'H' and mol.degree(n) == 0:
            problems.append(f'isolated hydrogen {n}')
    return t, problems


def same_molecule(t1, t2):
    if len(t1) != len(t2) or t1.number_of_edges() != t2.number_of_edges():
        return False
    nm = lambda a, b: (a['element'], a['charge'], a['nh']) == (b['element'], b['charge'], b['nh'])
    em = lambda a, b: a['order'] == b['order']
    return nx.is_isomorphic(t1, t2, node_match=nm, edge_match=em)


def describe(t):
    return ('atoms ' + ' '.join(f"{n}:{d['element']}{d['charge'] or ''}H{d['nh']}" for n, d in sorted(t.nodes(data=True), key=lambda x: str(x[0])))
            + ' bonds ' + ' '.join(f"{a}-{b}:{d['order']}" for a, b, d in t.edges(data=True)))


# ---------------------------------------------------------------------------------------------
# G-cut

def partition(rng, g, k=None, max_parts=5, keep_rings=False):
    if keep_rings:
        # contract every ring system, partition the quotient graph, expand
        rep = {n: n for n in g}
        for comp in nx.biconnected_components(g):
            if len(comp) > 2:
                comp = sorted(comp)
                root = rep[comp[0]]
                olds = {rep[c] for c in comp}
                for n in rep:
                    if rep[n] in olds:
                        rep[n] = root
        q = nx.Graph()
        q.add_nodes_from(set(rep.values()))
        for a, b in g.edges:
            if rep[a] != rep[b]:
                q.add_edge(rep[a], rep[b])
        k = min(k or max_parts, len(q))
        qp = partition(rng, q, k=rng.randint(1, k))
        return {n: qp[rep[n]] for n in g}
    nodes = list(g.nodes)
    k = k or rng.randint(1, min(len(nodes), max_parts))
    seeds = rng.sample(nodes, k)
    part = {s: i for i, s in enumerate(seeds)}
    frontier = list(seeds)
    while len(part) < len(nodes):
        n = rng.choice(frontier)
        nb = [x for x in g[n] if x not in part]
        if not nb:
            frontier.remove(n)
            continue
        x = rng.choice(nb)
        part[x] = part[n]
        frontier.append(x)
    return part


def label_pool(rng):
    alnum = string.ascii_letters
    pool = list(alnum) + [a + b for a in 'abxyAZ' for b in 'abc019'] + ['1A', '2b', '11', '7']
    rng.shuffle(pool)
    return iter(pool)


def next_label(rng, labels, used, order, p_reuse):
    """a fresh label, or (p_reuse) one that so far only marks cuts of OTHER bond orders: the annotated order is part of a
    descriptor, so '[$a]' and '=[$a]' in one molecule are two unambiguous pairs"""
    cand = sorted(l for l, os_ in used.items() if order not in os_)
    lab = rng.choice(cand) if (cand and rng.random() < p_reuse) else next(labels)
    used.setdefault(lab, set()).add(order)
    return lab


def make_cuts(rng, g, part, kinds=('$', '><'), labels=None):
    """-> desc: node -> [(kind, label, order)], cutcount: {frozenset(parts): n}, cuts list"""
    labels = labels or label_pool(rng)
    desc, cutcount, cuts = {}, {}, []
    used, p_reuse = {}, rng.choice([0.0, 0.0, 0.6])
    for a, b, d in g.edges(data=True):
        if part[a] != part[b]:
            kind = rng.choice(kinds)
            o = d['order']
            oo = 1 if (o == 1.5 or d.get('lower')) else int(o)
            if o == 1.5 and rng.random() < 0.25:
                oo = 1.5          # the cut aromatic bond written with the aromatic symbol: [$x]:c...
            lab = next_label(rng, labels, used, oo, p_reuse)
            if kind == '$':
                ka = kb = '$'
            else:
                ka, kb = rng.choice([('>', '<'), ('<', '>')])
            desc.setdefault(a, []).append((ka, lab, oo))
            desc.setdefault(b, []).append((kb, lab, oo))
            key = frozenset((part[a], part[b]))
            cutcount[key] = cutcount.get(key, 0) + 1
            cuts.append((a, b, lab, oo))
    for n in desc:
        rng.shuffle(desc[n])
    return desc, cutcount, cuts


# ---------------------------------------------------------------------------------------------
# G-render

RING_POOL = [1, 2, 3, 4, 5, 6, 7, 8, 9, 10, 11, 12, 23, 45, 99]
DESC_SYM = {0: '.', 1: '', 2: '=', 3: '#', 4: '$', 1.5: ':'}


def atom_text(d, hcount, bracket=False):
    el, ch, ar = d['element'], d['charge'], d.get('aromatic', False) or d.get('lower', False)
    name = el.lower() if ar else el
    if d.get('lower') and el == 'N' and d.get('hcount') == 1:
        return '[nH]'
    if el == 'H':
        return '[H]'          # a hydrogen written out as an atom of its own
    if ch == 0 and not bracket:
        return name
    h = '' if hcount == 0 else ('H' if hcount == 1 else 'H%d' % hcount)
    c = '' if ch == 0 else ('+' if ch == 1 else '-' if ch == -1 else '%+d' % ch)
    return '[' + name + h + c + ']'


def bond_sym(g, a, b, rng=None, explicit_single=0.0, implicit_biaryl=0.0):
    o = g.edges[a, b]['order']
    if g.edges[a, b].get('lower'):
        return ''
    low = lambda n: g.nodes[n].get('aromatic') or g.nodes[n].get('lower')
    if o == 1 and low(a) and low(b):
        # the single bond between two aromatic rings: written '-' or (biphenyl as c1ccccc1c1ccccc1) left implicit
        if implicit_biaryl and rng is not None and g.nodes[a].get('aromatic') and g.nodes[b].get('aromatic') and rng.random() < implicit_biaryl:
            return ''
        return '-'
    if o == 1 and rng is not None and rng.random() < explicit_single:
        return '-'
    return SYM[o]


def fmt_desc(kind, label, order, explicit_single=False):
    return ('-' if (order == 1 and explicit_single) else DESC_SYM[order]) + '[' + kind + label + ']'


def render_fragment(rng, g, nodes, desc, start=None, opts=None):
    """SMILES text of the subgraph induced on `nodes` with descriptors.
    -> dict(text, atoms (text order -> node), tokens)
    tokens: ('atom', text, node) ('ring', text, node) ('desc', text, node, (kind,label,order)) ('open',) ('close',)
            ('bond', text)
    opts: desc_pos in {'before','after','mixed',None=random per atom}, leading (bool|None), bracket_p, explicit_single,
          ring_sym_at in {'open','close','both'}"""
    opts = dict(opts or {})
    sub = g.subgraph(nodes)
    if start is None:
        pref = []
        if rng.random() < opts.get('start_on_ring_desc', 0.5):
            cyc = {n for c in nx.cycle_basis(sub) for n in c}
            pref = sorted(n for n in nodes if n in cyc and desc.get(n))
        start = rng.choice(pref or sorted(nodes))
    seen = {start}
    tree = set()
    kids = {}

    def dfs(n):
        nb = list(sub[n])
        rng.shuffle(nb)
        kids[n] = []
        for x in nb:
            if x not in seen:
                seen.add(x)
                tree.add(frozenset((n, x)))
                kids[n].append(x)
                dfs(x)
    if 'non_dfs_tree' in opts and rng.random() < opts['non_dfs_tree']:
        # any spanning tree, not only depth-first ones: ring digits may then straddle branches (C(C1)CC1), a spelling
        # the reader accepts like any other and that a depth-first walk never produces
        order_ = [start]
        kids[start] = []
        while True:
            cand = [(n, x) for n in order_ for x in sub[n] if x not in seen]
            if not cand:
                break
            n, x = rng.choice(cand)
            seen.add(x)
            order_.append(x)
            tree.add(frozenset((n, x)))
            kids[n].append(x)
            kids[x] = []
    else:
        dfs(start)
    pre = []

    def preorder(n):
        pre.append(n)
        for x in kids[n]:
            preorder(x)
    preorder(start)
    idx = {n: i for i, n in enumerate(pre)}
    closures = [tuple(e) for e in sub.edges if frozenset(e) not in tree]
    pool = RING_POOL[:]
    rng.shuffle(pool)
    if len(closures) > len(pool):       # heavily cyclic fragment: every ring number stays unique within the text
        pool = [m for m in range(13, 100) if m not in RING_POOL][:len(closures) - len(pool)] + pool
    ring_at = {n: [] for n in nodes}
    for (a, b) in closures:
        if idx[a] > idx[b]:
            a, b = b, a
        m = pool.pop()
        sym = bond_sym(g, a, b)
        where = opts.get('ring_sym_at') or rng.choice(['open', 'open', 'close', 'both'])
        ring_at[a].append((m, sym if where in ('open', 'both') else ''))
        ring_at[b].append((m, sym if where in ('close', 'both') else ''))
    tokens = []

    def ring_text(m, sym):
        return sym + (str(m) if m < 10 else '%%%d' % m)

    def emit(n):
        d = g.nodes[n]
        bracket = d['charge'] == 0 and rng.random() < opts.get('bracket_p', 0.0) and not d.get('aromatic')
        dl = list(desc.get(n, []))
        lead = []
        if n == start and dl:
            want = opts.get('leading')
            if want is None:
                want = rng.random() < 0.4
            if want:
                k = rng.randint(1, len(dl))
                lead, dl = dl[:k], dl[k:]
        for (kind, label, o) in lead:
            # a leading descriptor carries its order symbol AFTER the bracket
            tokens.append(('desc', '[' + kind + label + ']' + DESC_SYM[o], n, (kind, label, o)))
        tokens.append(('atom', atom_text(d, d['hcount'], bracket), n))
        rings = sorted(ring_at[n], key=lambda r: r[0] >= 10)   # %nn markers last: no bare digit after them
        items = [('desc', x) for x in dl]
        pos = opts.get('desc_pos') or rng.choice(['before', 'after', 'mixed'])
        if pos == 'before':
            seq = items + [('ring', r) for r in rings]
        elif pos == 'after':
            seq = [('ring', r) for r in rings] + items
        else:
            seq, i, j = [], 0, 0
            rl = [('ring', r) for r in rings]
            while i < len(items) or j < len(rl):
                if j == len(rl) or (i < len(items) and rng.random() < 0.5):
                    seq.append(items[i])
                    i += 1
                else:
                    seq.append(rl[j])
                    j += 1
        ks = kids[n]
        # descriptors may also be written after (some of) the branches of their atom: C(CC)[$]C
        late = []
        if len(ks) >= 2 and rng.random() < opts.get('desc_after_branch', 0.0):
            descs_ = [it for it in seq if it[0] == 'desc']
            if descs_:
                k = rng.randint(1, len(descs_))
                late = descs_[-k:]
                keep = descs_[:-k]
                it_keep = iter(keep)
                seq = [x for x in seq if x[0] == 'ring' or x in keep]
        for si_, (kind_, x) in enumerate(seq):
            if kind_ == 'ring':
                tokens.append(('ring', ring_text(*x), n))
            elif (rng.random() < opts.get('desc_in_parens', 0.0) and tokens and tokens[-1][0] in ('atom', 'close', 'ring', 'desc')
                  and tokens[-1][0] != 'open' and not any(k2 == 'ring' for k2, _ in seq[si_ + 1:]) and any(t_[0] == 'atom' and t_[2] == n for t_ in tokens)):
                # a descriptor as a branch of its own: C([$x])C
                tokens.extend([('open',), ('desc', fmt_desc(*x), n, x), ('close',)])
            else:
                tokens.append(('desc', fmt_desc(*x, explicit_single=rng.random() < opts.get('explicit_single', 0.0)), n, x))
        # ... or after ALL neighbours written as branches: CS(=O)(=O)[$]
        all_br = bool(late) and rng.random() < 0.4
        for i, x in enumerate(ks):
            bs = bond_sym(g, n, x, rng, opts.get('explicit_single', 0.0), opts.get('implicit_biaryl', 0.0))
            if i < len(ks) - 1 or all_br:
                tokens.append(('open',))
                if bs:
                    tokens.append(('bond', bs))
                emit(x)
                tokens.append(('close',))
                if late and ((i == len(ks) - 1) if all_br else (i == len(ks) - 2 or rng.random() < 0.5)):
                    for kind_, x2 in late:
                        tokens.append(('desc', fmt_desc(*x2), n, x2))
                    late = []
            else:
                if bs:
                    tokens.append(('bond', bs))
                emit(x)
    emit(start)
    text = ''.join('(' if t[0] == 'open' else ')' if t[0] == 'close' else t[1] for t in tokens)
    return dict(text=text, atoms=pre, tokens=tokens, start=start)


def explicit_hydrogen_tokens(rng, g, tokens, p=0.4, spellings=('[H]', '[H]', '[2H]', '[H;w=0.5]', '[H;0.2]', '[H;note=a]'), skip=()):
    """token list of a rendered fragment in which some hydrogens of atoms written without brackets are spelled out as
    '([H])' / '([2H])' / '([H;w=0.5])' right behind their atom (and its ring digits / descriptors); atoms in `skip` get none"""
    out, k = [], 0
    while k < len(tokens):
        t = tokens[k]
        out.append(t)
        k += 1
        if (t[0] == 'atom' and not t[1].startswith('[') and t[2] not in skip and g.nodes[t[2]]['hcount'] >= 1
                and not g.nodes[t[2]].get('aromatic') and not g.nodes[t[2]].get('lower') and rng.random() < p):
            while k < len(tokens) and tokens[k][0] in ('ring', 'desc') and tokens[k][2] == t[2]:
                out.append(tokens[k])
                k += 1
            out += [('open',), ('atom', rng.choice(spellings), ('H', t[2])), ('close',)]
    return out


def tokens_text(tokens):
    return ''.join('(' if x[0] == 'open' else ')' if x[0] == 'close' else x[1] for x in tokens)


def with_explicit_hydrogens(rng, g, tokens, p=0.4, annotations=('w=0.5', '0.2', 'note=a')):
    return tokens_text(explicit_hydrogen_tokens(rng, g, tokens, p, spellings=('[H]',) * 3 + tuple('[H;%s]' % a for a in annotations)))


def clean_text(tokens):
    return ''.join('(' if t[0] == 'open' else ')' if t[0] == 'close' else t[1] for t in tokens if t[0] != 'desc')


def molecule_smiles(rng, g, opts=None):
    return render_fragment(rng, g, list(g.nodes), {}, opts=opts)['text']


# ---------------------------------------------------------------------------------------------
# cases

def build_case(rng, g, part, kinds=('$', '><'), render_opts=None, shared=None):
    """-> dict(base (nx graph, node=part id, fragname), frags {name: text}, members, desc, cuts, cutcount)"""
    nparts = max(part.values()) + 1
    members = {i: [n for n in g if part[n] == i] for i in range(nparts)}
    desc, cutcount, cuts = make_cuts(rng, g, part, kinds)
    if any(v > 4 for v in cutcount.values()):
        return None
    frags, atom_orders, tokens = {}, {}, {}
    for i in range(nparts):
        r = render_fragment(rng, g, members[i], desc, opts=render_opts)
        frags['F%d' % i] = r['text']
        atom_orders['F%d' % i] = r['atoms']
        tokens['F%d' % i] = r['tokens']
    base = nx.Graph()
    order = list(range(nparts))
    rng.shuffle(order)
    for i in order:
        base.add_node(i, fragname='F%d' % i)
    for key, v in cutcount.items():
        a, b = tuple(key)
        base.add_edge(a, b, order=v)
    return dict(base=base, frags=frags, atom_orders=atom_orders, cuts=cuts, desc=desc, members=members,
                cutcount=cutcount, tokens=tokens)


def base_to_ast(rng, base, start=None, trailing=None):
    """random DFS spelling of a connected base graph as a G-grammar AST (never ends a branch in a
    nested branch unless trailing=True); -> (ast, node order)"""
    from . import grammar as G
    start = start if start is not None else rng.choice(list(base.nodes))
    if trailing is None:
        trailing = rng.random() < 0.25
    seen = {start}
    kids, tree = {}, set()

    def dfs(n):
        kids[n] = []
        nb = list(base[n])
        rng.shuffle(nb)
        for x in nb:
            if x not in seen:
                seen.add(x)
                tree.add(frozenset((n, x)))
                kids[n].append(x)
                dfs(x)
    dfs(start)
    pre = []

    def po(n):
        pre.append(n)
        for x in kids[n]:
            po(x)
    po(start)
    idx = {n: i for i, n in enumerate(pre)}
    elems = {}

    def order_of(a, b):
        o = base.edges[a, b].get('order', 1)
        if o == 1:
            return None if rng.random() < 0.85 else 1
        return o

    def make(n):
        e = G.el(base.nodes[n]['fragname'], annot=base.nodes[n].get('annot'), attrs=base.nodes[n].get('attrs'))
        elems[n] = e
        chain = [e]
        ks = kids[n]
        for i, x in enumerate(ks):
            sub = make(x)
            o = order_of(n, x)
            if i == len(ks) - 1 and not (trailing and rng.random() < 0.3):
                sub[0]['bond'] = o
                chain += sub
            else:
                e['branches'].append(G.br(sub, order=o))
        return chain
    ast = make(start)
    # ring closures
    open_iv = []
    for a, b in base.edges:
        if frozenset((a, b)) in tree:
            continue
        if idx[a] > idx[b]:
            a, b = b, a
        i, j = idx[a], idx[b]
        used_m = {m for (x, y, m) in open_iv if not (y < i or x > j)}
        pct = rng.random() < 0.3
        poolm = [m for m in (range(10, 100) if pct else range(0, 10)) if m not in used_m]
        if not poolm:
            pct = True
            poolm = [m for m in range(10, 100) if m not in used_m]
        m = rng.choice(poolm)
        o = base.edges[a, b].get('order', 1)
        elems[a]['rings'].append((None if o == 1 else o, m, pct))
        elems[b]['rings'].append((None, m, pct))
        open_iv.append((i, j, m))
    for e in elems.values():
        e['rings'].sort(key=lambda r: (r[2] or r[1] >= 10))
    return ast, pre


def full_string(rng, case, trailing=False):
    from . import grammar as G
    ast, pre = base_to_ast(rng, case['base'], trailing=trailing)
    items = list(case['frags'].items())
    rng.shuffle(items)
    return G.to_string(ast) + '.{' + ','.join('#%s=%s' % kv for kv in items) + '}', pre, ast


# ---------------------------------------------------------------------------------------------
# shared atoms (squash operator)

def build_case_shared(rng, g, part, p_share=0.5, kinds=('$', '><'), render_opts=None, force_atoms=()):
    """like build_case, but a subset of the cut bonds is replaced by sharing one end atom: the atom b
    is cloned into the neighbouring fragment P (bonded there to all of b's neighbours in P) and clone
    and original carry a uniquely labelled '!' pair."""
    g = g.copy()
    part = dict(part)
    nparts = max(part.values()) + 1
    labels = label_pool(rng)
    desc, cutcount, shared = {}, {}, []
    cand = {}
    for a, b in list(g.edges):
        if part[a] != part[b]:
            cand.setdefault((b, part[a]), []).append(a)
            cand.setdefault((a, part[b]), []).append(b)
    done_edges = set()
    keys = list(cand)
    rng.shuffle(keys)
    keys.sort(key=lambda k: k[0] not in force_atoms)
    nxt = max(g.nodes) + 1
    origin = {n: n for n in g}
    for (b, P) in keys:
        if b not in force_atoms and rng.random() > p_share:
            continue
        nbrs = [a for a in cand[(b, P)] if frozenset((a, b)) not in done_edges and g.has_edge(a, b) and part[a] == P]
        if not nbrs or origin[b] != b:
            continue
        if any(origin[a] != a for a in nbrs):
            continue
        clone = nxt
        nxt += 1
        g.add_node(clone, **dict(g.nodes[b]))
        part[clone] = P
        origin[clone] = b
        for a in nbrs:
            g.add_edge(a, clone, order=g.edges[a, b]['order'])
            done_edges.add(frozenset((a, b)))
            g.remove_edge(a, b)
        # two shared atoms that are bonded to each other (the fusion bond of two rings described ring by ring): the bond is
        # then written in BOTH fragments, between the originals and between their copies
        for x in list(g[b]):
            if part[x] == part[b] and origin[x] == x:
                for xc in [n for n in g if origin.get(n) == x and n != x and part[n] == P]:
                    if not g.has_edge(clone, xc) and rng.random() < 0.7:
                        g.add_edge(clone, xc, **dict(g.edges[b, x]))
        # bonds of the shared atom to THIRD fragments may be written on either of its two copies
        for c in list(g[b]):
            if part[c] not in (P, part[b]) and origin[c] == c and rng.random() < 0.4:
                g.add_edge(c, clone, **dict(g.edges[c, b]))
                g.remove_edge(c, b)
                moved_to_clone = True
        lab = next(labels)
        desc.setdefault(clone, []).append(('!', lab, 1))
        desc.setdefault(b, []).append(('!', lab, 1))
        key = frozenset((P, part[b]))
        cutcount[key] = cutcount.get(key, 0) + 1
        shared.append((b, clone))
    cuts = []
    for a, b, d in g.edges(data=True):
        if part[a] != part[b]:
            lab = next(labels)
            kind = rng.choice(kinds)
            o = d['order']
            oo = 1 if (o == 1.5 or d.get('lower')) else int(o)
            if o == 1.5 and rng.random() < 0.25:
                oo = 1.5          # the cut aromatic bond written with the aromatic symbol: [$x]:c...
            if kind == '$':
                ka = kb = '$'
            else:
                ka, kb = rng.choice([('>', '<'), ('<', '>')])
            desc.setdefault(a, []).append((ka, lab, oo))
            desc.setdefault(b, []).append((kb, lab, oo))
            key = frozenset((part[a], part[b]))
            cutcount[key] = cutcount.get(key, 0) + 1
            cuts.append((a, b, lab, oo))
    if any(v > 4 for v in cutcount.values()):
        return None
    for n in desc:
        rng.shuffle(desc[n])
    members = {i: [n for n in g if part[n] == i] for i in range(nparts)}
    for i in members:
        if not members[i] or not nx.is_connected(g.subgraph(members[i])):
            return None
    frags, atom_orders, tokens = {}, {}, {}
    for i in range(nparts):
        r = render_fragment(rng, g, members[i], desc, opts=render_opts)
        frags['F%d' % i] = r['text']
        atom_orders['F%d' % i] = r['atoms']
        tokens['F%d' % i] = r['tokens']
    base = nx.Graph()
    order = list(range(nparts))
    rng.shuffle(order)
    for i in order:
        base.add_node(i, fragname='F%d' % i)
    for key, v in cutcount.items():
        a, b = tuple(key)
        base.add_edge(a, b, order=v)
    if not nx.is_connected(base):
        return None
    return dict(base=base, frags=frags, atom_orders=atom_orders, cuts=cuts, desc=desc, members=members,
                cutcount=cutcount, tokens=tokens, shared=shared, natoms_frag=len(g), gx=g, origin=origin)


# ---------------------------------------------------------------------------------------------
# coarse "molecules": named nodes, bond orders, no chemistry

CG_NAMES = ['A', 'B', 'C', 'TC5', 'SP1', 'Na', 'X2', 'Q']


def gen_coarse_graph(rng, n, p_ring=0.3, names=CG_NAMES, orders=(1, 1, 1, 1, 2, 3)):
    p_ring = p_ring if rng.random() < 0.8 else 0.9       # now and then ring-rich bead graphs: beads that open several rings
    g = nx.Graph()
    for i in range(n):
        g.add_node(i, name=rng.choice(names))
        if i:
            g.add_edge(rng.randrange(i), i, order=rng.choice(orders))
    extra = sum(rng.random() < p_ring for _ in range(max(0, n - 2)))
    for _ in range(extra):
        a, b = rng.sample(range(n), 2)
        if not g.has_edge(a, b):
            g.add_edge(a, b, order=rng.choice(orders))
    return g


def render_coarse_fragment(rng, g, nodes, desc, name_attr='name'):
    """CGsmiles text of the induced subgraph with descriptors after the nodes -> (text, node order)"""
    from . import grammar as G
    sub = nx.Graph()
    for n in nodes:
        sub.add_node(n, fragname=g.nodes[n][name_attr])
    for a, b, d in g.subgraph(nodes).edges(data=True):
        sub.add_edge(a, b, order=d['order'])
    start = rng.choice(sorted(nodes))
    ast, pre = base_to_ast(rng, sub, start=start)
    # attach descriptor texts
    flat = G._flat(ast)
    for (e, _, _, _), n in zip(flat, pre):
        if g.nodes[n].get('annot'):
            e['annot'] = g.nodes[n]['annot']         # a weight (or free key) written on the bead
        dl = desc.get(n, [])
        txt = ''.join(fmt_desc(k, l, o) for (k, l, o) in dl)
        if n == start and dl and rng.random() < 0.3:
            k, l, o = dl[0]
            e['lead_desc'] = '[' + k + l + ']' + DESC_SYM[o]
            txt = ''.join(fmt_desc(*x) for x in dl[1:])
        if rng.random() < 0.5:
            e['pre_desc'] = txt
        else:
            e['post_desc'] = txt
    text = G.unparse(ast)
    lead = flat[0][0].get('lead_desc', '')
    return lead + text, pre
