"""Molecules with stereo double bonds (geometry chosen by the generator, slash marks written from it)
and labelled stereocentres, cut into fragments that keep every slash next to atoms of its own fragment."""
import networkx as nx

from . import mol as M


def gen_stereo_molecule(rng, n_db=None, n_chiral=None, max_extra=6, p_ring=0.0, p_tail=0.0, p_unsat=0.0, p_hlig=0.0):
    """tree-shaped molecule; -> (g, stereo) with stereo = [dict(a1,a2,l1,l2,kind)], chiral = {atom: 'R'|'S'}"""
    n_db = n_db if n_db is not None else rng.randint(1, 3)
    n_chiral = n_chiral if n_chiral is not None else rng.choice([0, 0, 1, 2])
    g = nx.Graph()

    def add(el='C', parent=None, order=1):
        n = len(g)
        g.add_node(n, element=el, charge=0, aromatic=False, cap=M.VAL[(el, 0)][0], ring=None)
        if parent is not None:
            g.add_edge(parent, n, order=order)
        return n
    stereo = []
    prev = add(rng.choice(['C', 'C', 'O', 'N']))
    for k in range(n_db):
        # spacer so that marked atoms of different double bonds are neither shared nor adjacent
        for _ in range(rng.randint(1, 2)):
            prev = add('C', prev)
        l1 = prev if k == 0 and rng.random() < 0.5 and g.degree(prev) <= 1 else add(rng.choice(['C', 'F', 'Cl', 'C', 'O']), None)
        if l1 != prev:
            # l1 hangs off a1 as a side group; chain continues through a1
            a1 = add('C', prev)
            g.add_edge(a1, l1, order=1)
        else:
            a1 = add('C', l1)
        a2 = add('C', a1, order=2)
        # (p_hlig: the marked substituent is a hydrogen written out as [H], e.g. CC(/[H])=C/F)
        l2 = add('H' if (p_hlig and rng.random() < p_hlig) else rng.choice(['C', 'F', 'Cl', 'Br', 'C', 'N']), a2)
        kind = rng.choice(['cis', 'trans'])
        stereo.append(dict(a1=a1, a2=a2, l1=l1, l2=l2, kind=kind))
        # continuation: from a2 (second substituent) or from l2 if it can continue
        if g.nodes[l2]['element'] in ('C', 'N') and rng.random() < 0.5:
            prev = add('C', l2)
        else:
            prev = add('C', a2)
    marked = {x for s in stereo for x in (s['a1'], s['a2'], s['l1'], s['l2'])}
    unsat = set()
    if p_unsat:
        # an UNMARKED, unsaturated third substituent on a double-bond atom (the ester carbon of a tiglate, an isopropenyl
        # carbon): it carries a double bond of its own but no slash mark
        for s_ in stereo:
            for anc in (s_['a1'], s_['a2']):
                if M.free(g, anc) >= 1 and rng.random() < p_unsat:
                    first_new = len(g)
                    c = add('C', anc)
                    if rng.random() < 0.6:
                        add('O', c, order=2)
                        if rng.random() < 0.6:
                            add('C', add('O', c))
                    else:
                        add('C', c, order=2)
                        if rng.random() < 0.5:
                            add('C', c)
                    unsat.update(range(first_new, len(g)))
        marked |= unsat          # left alone by the decoration, ring and stereocentre steps below
    # decorate with extra atoms on unmarked atoms (keeps the marked ligands free of further double bonds)
    for _ in range(rng.randint(0, max_extra)):
        cands = [n for n in g if M.free(g, n) >= 1 and n not in marked and not any(nb in marked for nb in g[n])]
        if not cands:
            break
        a = rng.choice(cands)
        el = rng.choice(['C', 'C', 'O', 'N', 'F', 'S'])
        mo = int(min(M.free(g, a), M.VAL[(el, 0)][0], 2))
        add(el, a, order=rng.choice([1, 1, mo]) if mo >= 1 else 1)
    if rng.random() < 0.25:
        # an aryl thioether substituent (-S-c1ccccc1): 'Sc' is the everyday pair of an aliphatic and an aromatic atom whose
        # letters also spell an element; stereo marks written after it in the same fragment must stay on their atoms
        cands = [n for n in g if M.free(g, n) >= 1 and n not in marked and g.nodes[n]['element'] == 'C']
        if cands:
            a = rng.choice(cands)
            sn = add('S', a)
            g.nodes[sn]['cap'] = 2
            ring = []
            for _ in range(6):
                r_ = len(g)
                g.add_node(r_, element='C', charge=0, aromatic=True, cap=4, ring=99)
                ring.append(r_)
            for x, y in zip(ring, ring[1:] + ring[:1]):
                g.add_edge(x, y, order=1.5)
            g.add_edge(sn, ring[0], order=1)
    if p_tail and rng.random() < p_tail:
        # a long saturated tail (decyl ... dotetracontyl): as a fragment of its own it has 31 ... 127 atoms with its
        # hydrogens, so that whatever is listed after it gets node indices around 32, 64, 128
        cands = [n for n in g if M.free(g, n) >= 1 and n not in marked and not any(nb in marked for nb in g[n]) and g.nodes[n]['element'] == 'C']
        if cands:
            a = rng.choice(cands)
            first = prev_ = add('C', a)
            for _ in range(rng.choice([8, 9, 10, 10, 11, 12, 40, 41, 42]) - 1):
                prev_ = add('C', prev_)
            g.graph['tail_bond'] = (a, first)
    if rng.random() < p_ring:
        # a stereo double bond inside a large ring: one of its atoms is bonded (single, unmarked bond) to a far-away
        # unmarked atom, as in C1CCCCC/C=C1/F; the slash-marked bonds stay ordinary chain bonds (checked by the caller)
        s_ = rng.choice(stereo)
        for anc in rng.sample([s_['a1'], s_['a2']], 2):
            if M.free(g, anc) < 1:
                continue
            dist = nx.single_source_shortest_path_length(g, anc)
            far = [n for n in g if dist.get(n, 0) >= 5 and n not in marked and M.free(g, n) >= 1 and g.nodes[n]['element'] == 'C']
            if far:
                g.add_edge(anc, rng.choice(far), order=1)
                break
    chiral = {}
    cands = [n for n in g if g.nodes[n]['element'] == 'C' and n not in marked and g.degree(n) >= 2
             and all(d['order'] == 1 for _, _, d in g.edges(n, data=True))]
    rng.shuffle(cands)
    for n in cands[:n_chiral]:
        chiral[n] = rng.choice(['R', 'S'])
        # fully substituted centres (no hydrogen) are the ones that can become a single-atom fragment
        if rng.random() < 0.5:
            while M.free(g, n) >= 1:
                add(rng.choice(['F', 'Cl', 'C', 'O', 'Br']), n)
    for n in g:
        d = g.nodes[n]
        h = M.hcount_for(d['element'], d['charge'], M.used(g, n))
        if h is None:
            return None
        d['hcount'] = h
    if not M.dime_safe(g):
        return None
    return g, stereo, chiral


def slash_tokens(stereo, order_index, rng):
    """for every (ligand, anchor) bond the slash to write, given the position of each atom in the
    text (order_index: atom -> position within ITS fragment text, comparable only within a fragment).
    OpenSMILES: 'x/y' = y is above x.  ligand written before its anchor: '/' -> ligand below; after: '/' -> above."""
    out = {}
    for s in stereo:
        side1 = rng.choice(['up', 'down'])
        side2 = side1 if s['kind'] == 'cis' else ('down' if side1 == 'up' else 'up')
        for lig, anc, side in ((s['l1'], s['a1'], side1), (s['l2'], s['a2'], side2)):
            before = order_index[lig] < order_index[anc]
            if before:
                tok = '\\' if side == 'up' else '/'
            else:
                tok = '/' if side == 'up' else '\\'
            out[frozenset((lig, anc))] = tok
    return out


def render_with_slashes(rng, g, nodes, desc, stereo, chiral, opts=None):
    """render a fragment; then replace the bond token between each (ligand, anchor) pair of this
    fragment by the slash mark and put the chirality label into a bracket atom"""
    for _ in range(50):
        r = M.render_fragment(rng, g, nodes, desc, opts=dict(opts or {}, explicit_single=0.0))
        idx = {n: i for i, n in enumerate(r['atoms'])}
        pairs = [(s[l], s[a]) for s in stereo for l, a in (('l1', 'a1'), ('l2', 'a2')) if s[l] in idx and s[a] in idx]
        # the ligand-anchor bond must be written as a chain/branch bond (it is: the molecule is a tree)
        return r, idx, pairs
    return None
