"""G-ambig: polymer-style inputs with NON-unique descriptors (unlabelled $, homopolymers, several
descriptors per atom, surplus descriptors, '!', orders 1-3, charged / aromatic units, coarse units).
No expected molecule is known; the generator-independent invariants (C02, C03, C09, C12, C15) apply."""
from . import grammar as G

ATOMISTIC = {
    'PEO': '[$]COC[$]', 'PE': '[$]CC[$]', 'PS': '[$]CC[$]c1ccccc1', 'PMA': '[>]CC[<]C(=O)OC', 'PEG': '[>]COC[<]',
    'OH': '[$]O', 'HT': '[$][H]', 'HB': '[$]H', 'HB2': '[>]H', 'ME': '[$]C', 'NH': '[$]N[$]', 'AM': '[$]C[NH2+]C[$]', 'AC': '[$]CC(=O)[O-]',
    'ENE': '[$]=CC=[$]', 'EN2': '[$1]=CC=[$2]', 'YNE': '[$]#CC[$]', 'BZ': '[$]cc[$]', 'LAB': '[$A]CC[$B]',
    'TRI': '[$]CC[$][$]', 'QUA': '[$]C([$])([$])C', 'SUR': '[$]C[$][$][>][<]', 'DIR': '[>]C[>]C[<]', 'SQ': '[!]CC[!]',
    'SQ2': 'C[!]C[$]', 'PY': '[$]c1ccncc1', 'SO': '[$]CS(=O)(=O)C[$]', 'PH': '[$]OP(=O)(O)O[$]', 'CL': '[$]CCl',
    'MIX': '[$]C[>]C[<][$]', 'DBL': 'C=[$]C[$]', 'ARO': '[$]c1ccc([$])cc1', 'ORD': '[$]=C[$]', 'NA': '[$][O-].[Na+]',
    'WT': '[$][C;0.5]([H;0.1])[$]', 'ONE': '[$][C;0.25;lab=abc][$]', 'W0': '[$][C;0]C[$]', 'WH': '[$]C([H;0])[O;0.5][$]', 'WG': '[>][C;2]([H;w=0;k=ab])([H;0.3])[<]', 'W1': '[>][N;w=0]C[C;w=0.5][<]', 'W2': '[$]C[O;0;x=R]', 'ON2': '[>][N;2;x=S][<]', 'ZER': 'C.[$]C[$]', 'ZE2': '[$].CC[$][$]', 'CH': '[<]C[C;x=R][>](F)Cl',
}
COARSE = {
    'CA': '[>][#X][#Y][<]', 'CB': '[$][#P]1[#Q][#R]1[$]', 'CC': '[$][#S][$][$]', 'CD': '[>][#T]=[#U][<][$]',
    'CE': '[$A][#M][#N][$B]', 'CZ': '[$][#BB]([#SC1].[#CL])[$]', 'CZ2': '[>][#P].[#NA][#Q][<]', 'CF': '[!][#K][#L][!]', 'CG': '[$][#W;0.5][#Z;q=1]', 'CH2': '[$]=[#D][#E]=[$]',
}


def random_case(rng, coarse=None, max_nodes=10, prefer=()):
    coarse = rng.random() < 0.25 if coarse is None else coarse
    lib = COARSE if coarse else ATOMISTIC
    k = rng.randint(1, 4)
    names = rng.sample(sorted(lib), k)
    if prefer and not coarse:
        names[0] = rng.choice([p for p in prefer if p in lib])
        names = list(dict.fromkeys(names))
    n = rng.randint(1, max_nodes)
    ast = G.random_ast(rng, n, max_depth=2, p_branch=rng.choice([0.0, 0.3]), p_bond=rng.choice([0.0, 0.2]),
                       n_rings=rng.choice([0, 0, 1]), p_mult_node=rng.choice([0.0, 0.3]), names=names, p_trailing_branch=rng.choice([0, 0.2]),
                       orders=(1, 1, 2, 0, 3), max_mult=4)
    try:
        G.denote(ast)
    except G.RefSyntaxError:
        return None
    feats = G.features(ast)
    legacy = rng.random() < 0.6
    used = sorted({e['name'] for e, _, _, _ in G._flat(ast)})
    frag = '{' + ','.join('#%s=%s' % (nm, lib[nm]) for nm in names) + '}'
    ctor = rng.choice(['string', 'string', 'string', 'from_graph', 'from_fragment_dicts'])
    return dict(kind='ambig', string=G.to_string(ast) + '.' + frag, coarse=coarse, legacy=legacy, ctor=ctor,
                features=sorted({'ambig_coarse' if coarse else 'ambig_atomistic', 'legacy_on' if legacy else 'legacy_off', 'ctor_' + ctor}
                                | {'unit_' + u for u in used}))
