"""C08 - fragment definitions and complete strings round-trip through the writer."""
import random
import re

import networkx as nx

from ..gen import mol as M
from ..oracles import V
from .. import contracts
from . import molcommon as MC
from . import c13 as C13

PROPERTY = 'C08'
LEVEL = 'exploration'
RULE = ('(i) fragment sets: 1-4 fragments per set, atomistic (G-mol + G-render) or coarse (named graphs), each atom with 0-3 '
        'descriptors in any order, orders 0-3, all four kinds, labelled or not, leading or not, around ring digits, 12 % with a group whose bonds are written : between upper-case atoms, 30 % spelled along an arbitrary spanning tree: '
        'read_fragments(write_cgsmiles_fragments(F)) must give fragments isomorphic to F on element / node name, charge, '
        'aromatic flag, ORDERED descriptor list per atom and bond order. (ii) complete strings from the C01 / C10 / C06 '
        'generators (cut, shared, multi-level, coarse last level, two-level strings with a coarse fragment layer only): write_cgsmiles(resolver.molecule, resolver.fragment_dicts) '
        '-> from_string -> resolve_all must be the same molecule as the original string gives. distinct = (kind, feature set, '
        'size); non-trivial = at least one descriptor.')
ASSUMPTIONS = ['weight, chirality and E/Z marks are not in the property\'s list and are not compared',
               'fragment sets that the reader rejects are outside the premise and only counted']
MECHANISMS = [('cgsmiles.write_cgsmiles', 'format_bonding'), ('cgsmiles.write_cgsmiles', 'write_cgsmiles_fragments'),
              ('cgsmiles.write_cgsmiles', 'write_cgsmiles'), ('cgsmiles.write_cgsmiles', 'write_graph'),
              ('cgsmiles.read_fragments', 'fragment_iter')]
FINDING_FEATURES = {}
SIZES = {'quick': 7000, 'thorough': 120000}


def frag_set_case(rng):
    coarse = rng.random() < 0.3
    frs = {}
    feats = {'fragset_coarse' if coarse else 'fragset_atomistic'}
    nd = 0
    for i in range(rng.randint(1, 4)):
        if coarse:
            g = M.gen_coarse_graph(rng, rng.randint(1, 8), orders=(0, 1, 1, 1, 2, 3))
        else:
            g = M.gen_molecule(rng, max_heavy=rng.choice([1, 3, 6, 10]), p_ring=rng.choice([0.25, 0.7]), p_arom=rng.choice([0.3, 0.3, 0.8]), p_thio=0.5)
        desc = {}
        p = rng.choice([0.2, 0.5])
        orders = rng.choice([(1,), (1, 2, 3), (0, 1, 2, 3)])
        for n in g.nodes:
            if rng.random() < p:
                desc[n] = [(rng.choice(C13.KINDS), rng.choice(C13.LABELS), rng.choice(orders)) for _ in range(rng.choice([1, 1, 2, 3]))]
                nd += len(desc[n])
                if len(desc[n]) > 1:
                    feats.add('multi_desc_atom')
                    if len({x[2] for x in desc[n]}) > 1:
                        feats.add('mixed_order_descs_on_atom')
                if any(x[2] == 0 for x in desc[n]):
                    feats.add('desc_order0')
        if coarse:
            text, _ = M.render_coarse_fragment(rng, g, list(g.nodes), desc)
        else:
            r_ = M.render_fragment(rng, g, list(g.nodes), desc, opts={'explicit_single': 0.0, 'non_dfs_tree': 0.3})
            if g.number_of_edges() >= len(g):
                feats.add('ring_fragment_any_spanning_tree')
            text = r_['text']
            if rng.random() < 0.2:
                # explicitly written (and sometimes annotated) hydrogens are atoms of the fragment: they must come back
                text = M.with_explicit_hydrogens(rng, g, r_['tokens'])
                if '[H' in text:
                    feats.add('explicit_hydrogen_atoms')
        frs['T%d' % i] = text
    if not coarse and rng.random() < 0.12:
        # bonds WRITTEN as aromatic (':') between atoms that are not written in lower case: delocalised groups
        # (carboxylate, guanidinium, nitro, sulfone) and rings spelled with upper-case atoms
        d = lambda: M.fmt_desc(rng.choice(C13.KINDS), rng.choice(C13.LABELS), rng.choice((1, 1, 2)))
        frs['T9'] = rng.choice(['{a}CC(:O):O', '{a}CNC(:N):N', '{a}C1:C:C:C({b}):C:C:1', 'N{a}(:O):O', 'C{a}S(:O)(:O)C{b}', 'C{a}:1:C:C:C:C:C1',
                                'C{a}c1ccccc1C(:O):O']).format(a=d(), b=d())
        feats.add('explicit_aromatic_bond_between_upper_case_atoms')
        nd += 1
    if not coarse and rng.random() < 0.1:
        # charged aromatic atoms without hydrogen at a fragment border (pyridinium, pyrylium, thiopyrylium, N-oxide cut
        # through the ring): the charge is part of the atom however few of its ring bonds lie inside the fragment
        d = lambda: M.fmt_desc(rng.choice(['$', '<', '>']), rng.choice(C13.LABELS), 1)
        frs['T8'] = rng.choice(['C[n+]({a})c{b}', '[n+]{a}(C)ccc{b}', 'c{a}[o+]c{b}', 'c{a}c[s+]c{b}', 'C[n+]1{a}ccccc1', '[O-][n+]({a})c{b}',
                                '{a}c[n+](CC)c{b}']).format(a=d(), b=d())
        feats.add('charged_aromatic_atom_at_fragment_border')
        nd += 1
    if not coarse and rng.random() < 0.05:
        # ten or more ring bonds in ONE fragment (a ladder of small rings, an oligo-phenylene): the writer numbers them
        # past 9 while at most one or two markers are open at a time
        d = lambda: M.fmt_desc(rng.choice(['$', '<', '>']), rng.choice(C13.LABELS), 1)
        unit = rng.choice(['C1CC1', 'C1CCC1', 'c1ccc(cc1)-'])
        k = rng.randint(10, 13)
        body = unit * k
        frs['T7'] = 'C' + d() + body + ('C' if unit.endswith('-') else '') + d()
        feats.add('ten_or_more_ring_bonds_in_one_fragment')
        nd += 2
    return dict(kind='fragset', coarse=coarse, string='{' + ','.join('#%s=%s' % kv for kv in frs.items()) + '}',
                features=sorted(feats), ndesc=nd)


def cases(seed, tier, shard, nshards):
    rng = random.Random(f'{seed}:C08:{tier}:{shard}')
    made = 0
    while made < SIZES[tier] // nshards:
        r = rng.random()
        if r < 0.55:
            c = frag_set_case(rng)
        elif r < 0.75:
            special = rng.random() < 0.25
            c = MC.random_cut_case(rng, rng.choice([3, 6, 10, 16]), ctor='string', plain_names=special)
            if c and special and c['nfrag'] <= 6 and 'second_definition_of_a_defined_name' not in c['features']:
                # fragment names as force fields have them (PEG-OH, NA+, C1'): the reader takes them, so the writer must
                pool = ['PEG-OH', 'NA+', 'CL-', "C1'", 'N-ter', 'B*']
                c = MC.rename_fragments(c, dict(zip(('F%d' % i for i in range(c['nfrag'])), rng.sample(pool, c['nfrag']))))
                c['features'] = sorted(set(c['features']) | {'fragment_names_with_special_characters'})
            if c:
                c = dict(c, kind='complete', string=c['base_string'] + '.' + c['frag_string'], coarse_last=False,
                         features=sorted(set(c['features']) | {'complete_cut'}))
        elif r < 0.8:
            c0 = MC.random_cut_case(rng, rng.choice([3, 6, 10]), ctor='string')
            c = MC.add_virtual(rng, c0) if c0 else None
            if c:
                c = dict(kind='complete', string=c['base_string'] + '.' + c['frag_string'], coarse_last=False,
                         features=sorted(set(c['features']) | {'complete_virtual_edges'}), nheavy=c['nheavy'])
        elif r < 0.88:
            c = MC.random_shared_case(rng, rng.choice([6, 10]), ctor='string')
            if c:
                c = dict(kind='complete', string=c['base_string'] + '.' + c['frag_string'], coarse_last=False,
                         features=sorted(set(c['features']) | {'complete_shared'}), nheavy=c['nheavy'])
        elif r < 0.91:
            # two-level strings whose only fragment layer is coarse (a bead graph cut into named bead fragments)
            c = MC.random_coarse_cut_case(rng, rng.randint(2, 10))
            if c:
                c = dict(kind='complete', string=c['base_string'] + '.' + c['frag_string'], coarse_last=True,
                         features=sorted(set(c['features']) | {'complete_two_level_coarse'}), nheavy=c.get('nheavy'))
        else:
            cl = rng.random() < 0.4
            c = MC.random_multilevel_case(rng, rng.choice([6, 10, 16]), coarse_last=cl)
            if c:
                c = dict(kind='complete', string=c['multi_string'], coarse_last=cl,
                         features=sorted(set(c['features']) | {'complete_multilevel'}), nheavy=c.get('nheavy'))
        if c is None:
            continue
        made += 1
        yield c
        if made % 400 == 0:
            # N-alkylpyridinium / pyrylium mapped to three beads: a complete string whose ring is closed by descriptors only
            het = rng.choice(['[n+]', '[o+]', '[s+]'])
            lab = rng.choice(['', 'r', 'a1'])
            pya = ('C[n+]([<%s])' % lab if het == '[n+]' else het + '[<%s]' % lab) + 'c[>%s]' % lab
            yield dict(kind='complete', string='{[#PYA]1[#PYB][#PYB]1}.{#PYA=%s,#PYB=[<%s]cc[>%s]}' % (pya, lab, lab),
                       coarse_last=False, features=['complete_charged_aromatic_ring_over_three_beads'], nheavy=7)


def frag_equal(a, b, coarse):
    name = 'atomname' if coarse else 'element'

    def nm(x, y):
        return (x.get(name) == y.get(name) and x.get('charge', 0) == y.get('charge', 0)
                and bool(x.get('aromatic')) == bool(y.get('aromatic'))
                and list(x.get('bonding') or []) == list(y.get('bonding') or []))
    if len(a) != len(b) or a.number_of_edges() != b.number_of_edges():
        return False
    return nx.is_isomorphic(a, b, node_match=nm, edge_match=lambda x, y: x.get('order', 1) == y.get('order', 1))


def show(g, coarse):
    name = 'atomname' if coarse else 'element'
    return ([(n, d.get(name), d.get('charge', 0), list(d.get('bonding') or [])) for n, d in g.nodes(data=True)],
            sorted((a, b, d.get('order')) for a, b, d in g.edges(data=True)))


def run(case):
    import cgsmiles
    from cgsmiles import MoleculeResolver
    from cgsmiles.write_cgsmiles import write_cgsmiles_fragments, write_cgsmiles
    contracts.clear()
    viol, rejected = [], {}
    s = case['string']
    if case['kind'] == 'fragset':
        coarse = case['coarse']
        try:
            F = cgsmiles.read_fragments(s, all_atom=not coarse)
        except Exception:
            F = None
            rejected['fragment_set_not_accepted'] = 1
        if F is not None:
            w = None
            try:
                w = write_cgsmiles_fragments(F, smiles_format=not coarse)
                F2 = cgsmiles.read_fragments(w, all_atom=not coarse)
                if set(F2) != set(F):
                    viol.append(V('c08.frag_names', f'{s} written as {w}: fragment names {sorted(F2)}'))
                else:
                    for name in F:
                        if not frag_equal(F[name], F2[name], coarse):
                            viol.append(V('c08.frag_not_isomorphic', f'{s} written as {w}: fragment {name} reads back as {show(F2[name], coarse)}, original {show(F[name], coarse)}'))
                            break
                if not viol and len(s) % 4 == 0:
                    # second generation, with a caller that edits what it read: the set read back is written again, the
                    # caller then empties the descriptor lists of ITS graphs (say, to cap the chain ends), and the written
                    # text is read once more: it must still say what was written
                    import copy
                    w2 = write_cgsmiles_fragments(F2, smiles_format=not coarse)
                    kept = copy.deepcopy(F2)
                    for g_ in list(F2.values()) + list(F.values()):
                        for _, d_ in g_.nodes(data=True):
                            if isinstance(d_.get('bonding'), list):
                                d_['bonding'].clear()
                    F3 = cgsmiles.read_fragments(w2, all_atom=not coarse)
                    for name in kept:
                        if name not in F3 or not frag_equal(kept[name], F3[name], coarse):
                            viol.append(V('c08.frag_not_isomorphic', f'{s} written as {w}, read, written again as {w2} and read after the caller had emptied the descriptor lists of its own '
                                          f'graphs: fragment {name} reads back as {show(F3[name], coarse) if name in F3 else None}, written was {show(kept[name], coarse)}'))
                            break
            except Exception as err:
                viol.append(V('c08.frag_exception.' + type(err).__name__, f'{s} (written: {w}) raised {type(err).__name__}: {err}'))
    else:
        kw = dict(last_all_atom=not case.get('coarse_last', False))
        try:
            r = MoleculeResolver.from_string(s, **kw)
            w = write_cgsmiles(r.molecule, r.fragment_dicts, last_all_atom=kw['last_all_atom'])
            cg1, aa1 = r.resolve_all()
        except Exception:
            r = None
            rejected['string_not_resolvable'] = 1
        if r is not None:
            try:
                cg2, aa2 = MoleculeResolver.from_string(w, **kw).resolve_all()
                if case.get('coarse_last'):
                    same = nx.is_isomorphic(aa1, aa2, node_match=lambda x, y: x.get('atomname') == y.get('atomname'),
                                            edge_match=lambda x, y: x.get('order') == y.get('order'))
                else:
                    h1, p1 = M.collapse_h(aa1)
                    h2, p2 = M.collapse_h(aa2)
                    same = M.same_molecule(h1, h2) and not p2
                if not same:
                    viol.append(V('c08.string_molecule_differs', f'{s} rewritten as {w} resolves to a different molecule'))
            except Exception as err:
                viol.append(V('c08.string_exception.' + type(err).__name__, f'{s} rewritten as {w} raised {type(err).__name__}: {err}'))
    contracts.clear()
    return {'violations': viol, 'rejected': rejected, 'sample': s,
            'nontrivial': case.get('ndesc', 1) > 0, 'cls': (case['kind'], tuple(case['features']), case.get('ndesc'), case.get('nheavy'))}
