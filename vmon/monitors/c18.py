"""C18 - the RDKit bridge keeps chemistry and puts coordinates on the right atoms."""
import math
import random

import networkx as nx

from ..gen import mol as M
from ..oracles import V
from .. import contracts
from . import molcommon as MC

PROPERTY = 'C18'
LEVEL = 'exploration'
RULE = ('(i) round trip rdkit_to_networkx(networkx_to_rdkit(G)) on generator molecules without explicit H, on resolver outputs '
        '(explicit H, node iteration order != key order) and on shuffled / sparsely keyed copies, with and without an RDKit '
        'conformer: isomorphic on element, formal charge, bond order and hydrogen count (H neighbours + hcount), and with a '
        'conformer every node carries a finite 3D position. (ii) embed_3d_via_rdkit(G) on resolver outputs and shuffled '
        'copies, and embedd_cg_molecule_via_rdkit (one call) on single molecules and on systems of 2-3 unconnected molecules '
        'with atoms shared between fragments: every node has a finite position and every bond of G has a length within '
        '[0.70, 1.25] x (sum of covalent radii). (iii) forward_map_molecule on resolver outputs (cut molecules, virtual particles, periodic copolymers with one fragment name on several beads; three-level strings whose top level is mapped from the middle level with the weights written on its beads) with annotated / random positive weights and synthetic '
        'positions: bead = sum(w x)/sum(w) over exactly the nodes of the bead\'s graph, and translating all atoms by t '
        'moves every bead by t. Inputs are restricted to molecules on which RDKit\'s aromaticity perception agrees with the '
        'generator\'s and that RDKit sanitises; embedding failures are counted, not judged. distinct = (sub-check, feature '
        'set, #heavy); non-trivial = at least 2 heavy atoms.')
ASSUMPTIONS = ['RDKit sanitisation / valence model is taken as reference where it accepts the molecule; rejected molecules and molecules with hypervalent centres are skipped and counted',
               'covalent radii (Cordero 2008): H .31 C .76 N .71 O .66 F .57 P 1.07 S 1.05 Cl 1.02 Br 1.20; window [0.70,1.25] x sum',
               'tolerance 1e-9 for bead positions',
               'embedding oracle domain: standard (lowest) valences, no charges, rings of 5+ atoms sharing no atom']
MECHANISMS = [('cgsmiles.rdkit', 'networkx_to_rdkit'), ('cgsmiles.rdkit', 'rdkit_to_networkx'), ('cgsmiles.rdkit', 'embed_3d_via_rdkit'),
              ('cgsmiles.coordinates', 'forward_map_molecule')]
FINDING_FEATURES = {'rdkit.roundtrip_reperceives_aromaticity': 'rdkit_perceives_other_aromatic_bonds'}
SIZES = {'quick': dict(round=1600, embed=192, fmap=800), 'thorough': dict(round=40000, embed=3000, fmap=20000)}
RADII = {'H': 0.31, 'C': 0.76, 'N': 0.71, 'O': 0.66, 'F': 0.57, 'P': 1.07, 'S': 1.05, 'Cl': 1.02, 'Br': 1.20}


def chain_map_case(rng):
    """three resolutions, mapped in a chain: the middle level's beads get positions, the top level is forward-mapped from them
    with the weights WRITTEN on the middle-level beads"""
    names = rng.sample(['B', 'C', 'D', 'E'], rng.randint(2, 3))
    wts = {nm: rng.choice([1.0, 0.25, 0.5, 2.0, 0.1]) for nm in names}
    spell = lambda nm: '[#%s]' % nm if wts[nm] == 1.0 and rng.random() < 0.7 else '[#%s;w=%s]' % (nm, wts[nm])
    units = {}
    for u in ('P', 'Q')[:rng.randint(1, 2)]:
        seq = [rng.choice(names) for _ in range(rng.randint(2, 4))]
        units[u] = '[$]' + ''.join(spell(nm) for nm in seq) + '[$]'
    atoms = {nm: rng.choice(['[$]CC[$]', '[$]C(=O)O[$]', '[$]COC[$]', '[$]CN[$]']) for nm in names}
    top = ''.join('[#%s]' % rng.choice(list(units)) for _ in range(rng.randint(1, 4)))
    s = '{%s}.{%s}.{%s}' % (top, ','.join('#%s=%s' % kv for kv in units.items()), ','.join('#%s=%s' % kv for kv in atoms.items()))
    return dict(kind='chainmap', string=s, weights=wts, sub_seed=rng.randrange(10 ** 6), nheavy=4,
                features=['forward_map_from_a_middle_level', 'weights_written_on_middle_level_beads'])


def run_chainmap(case):
    import numpy as np
    from cgsmiles import MoleculeResolver
    from cgsmiles.coordinates import forward_map_molecule
    contracts.clear()
    rng = random.Random(case['sub_seed'])
    viol, counters = [], {}
    txt = case['string']
    try:
        r = MoleculeResolver.from_string(txt)
        top, mid = r.resolve()
        if rng.random() < 0.5:
            r.resolve()           # the atomistic level is resolved as well before the middle level is used
    except Exception as err:
        contracts.clear()
        return {'violations': [], 'rejected': {'chain_case_not_resolvable_' + type(err).__name__: 1}, 'nontrivial': False, 'cls': ('skipped',), 'sample': txt}
    pos = {n: np.array([rng.uniform(-5, 5) for _ in range(3)]) for n in mid.nodes}
    for n in mid.nodes:
        mid.nodes[n]['position'] = pos[n].copy()
    try:
        forward_map_molecule(top, mid)
        for k in top.nodes:
            gr = top.nodes[k].get('graph')
            if gr is None or not len(gr):
                continue
            w = {n: case['weights'][mid.nodes[n]['atomname']] for n in gr.nodes}
            want = sum(w[n] * pos[n] for n in gr.nodes) / sum(w.values())
            got = np.array(top.nodes[k]['position'], dtype=float)
            if not np.allclose(got, want, atol=1e-9, rtol=0):
                viol.append(V('c18.bead_not_weighted_mean', f'{txt} [top level mapped from the middle level]: bead {k} at {got.tolist()}, weight-normalised mean of its beads {want.tolist()} '
                              f'(beads {[mid.nodes[n]["atomname"] for n in gr.nodes]}, written weights {[w[n] for n in gr.nodes]})'))
                break
        counters['beads_checked'] = len(top)
        counters['chain_mappings'] = 1
    except Exception as err:
        viol.append(V('c18.forward_map_exception.' + type(err).__name__, f'{txt} [top level mapped from the middle level]: raised {type(err).__name__}: {err}'))
    contracts.clear()
    return {'violations': viol, 'rejected': {}, 'counters': counters, 'nontrivial': True, 'cls': ('chainmap', len(top), len(mid)), 'sample': txt}


def cases(seed, tier, shard, nshards):
    cfg = SIZES[tier]
    rng = random.Random(f'{seed}:C18:{tier}:{shard}')
    for _ in range(max(2, cfg['fmap'] // (8 * nshards))):
        yield chain_map_case(rng)
    plan = ['round'] * (cfg['round'] // nshards) + ['embed'] * (cfg['embed'] // nshards) + ['fmap'] * (cfg['fmap'] // nshards)
    for what in plan:
        if what == 'embed' and rng.random() < 0.3:
            c = system_case(rng)
            if c is not None:
                yield c
                continue
        while True:
            c = MC.random_cut_case(rng, rng.choice([3, 6, 10]) if what == 'embed' else rng.choice([3, 6, 10, 16]), ctor='string',
                                   mol_kw=dict(charged=(what != 'embed'), lowest_valence=(what == 'embed'),
                                               p_het5=(0.35 if what == 'round' and rng.random() < 0.4 else 0.0)))
            if c is not None and (what != 'embed' or unstrained(c)):
                break
        if what == 'fmap' and rng.random() < 0.2:
            # polymers: the SAME fragment name on several beads, whose atoms differ in number (chain ends carry one more
            # hydrogen) and in weight - every bead is normalised by the weights of its own atoms
            pc = MC.random_periodic_case(rng)
            if pc is not None:
                c = dict(pc, features=sorted(set(pc['features']) | {'same_fragment_name_on_several_beads'}))
        elif what == 'fmap' and rng.random() < 0.3:
            # fragment-less nodes with several real neighbours (virtual particles): the real beads keep their own average
            v = MC.add_virtual(rng, c, n_virtual=rng.choice([1, 2]), n_zero_edges=rng.choice([1, 3]))
            if v is not None:
                c = dict(v, features=sorted(set(v['features']) | {'virtual_particles_in_forward_mapping'}))
        c = dict(c, kind=what, variant=rng.choice(['resolved', 'resolved_shuffled', 'resolved_sparse', 'raw']) if what == 'round'
                 else rng.choice(['resolved', 'resolved_shuffled', 'resolved_sparse']), sub_seed=rng.randrange(10 ** 6),
                 conformer=rng.random() < 0.4)
        c['features'] = sorted(set(c['features']) | {what, c['variant']} | ({'with_conformer'} if c['conformer'] and what == 'round' else set()))
        if what == 'round':
            c['rdkit_status'] = rdkit_status(c)
            if c['rdkit_status'] == 'aromaticity_differs':
                c['features'] = sorted(set(c['features']) | {'rdkit_perceives_other_aromatic_bonds'})
        yield c


def system_case(rng):
    """a system of 2-3 unconnected molecules in ONE string (joined by '.' in the base graph), each a cut molecule or a
    molecule with atoms shared between fragments ([!]); embedded and forward mapped in one call"""
    import re
    parts = []
    for k in range(rng.choice([2, 2, 3])):
        for _ in range(40):
            if rng.random() < 0.6:
                c = MC.random_shared_case(rng, rng.choice([4, 6, 8]), ctor='string', mol_kw=dict(charged=False, lowest_valence=True))
            else:
                c = MC.random_cut_case(rng, rng.choice([3, 6]), ctor='string', mol_kw=dict(charged=False, lowest_valence=True), plain_names=True)
            if c is not None and unstrained(c) and rdkit_agrees(c):
                break
        else:
            return None
        ren = lambda t, k=k: re.sub(r'#F(\d+)', lambda m: '#M%dF%s' % (k, m.group(1)), t)
        parts.append(dict(base=ren(c['base_string']), frag=ren(c['frag_string']), kind=c['kind'], nheavy=c['nheavy'], features=c['features']))
    base = '{' + '.'.join(p['base'][1:-1] for p in parts) + '}'
    frag = '{' + ','.join(p['frag'][1:-1] for p in parts) + '}'
    feats = {'embed', 'resolved', 'system_of_molecules'} | {'system_with_shared_atoms' for p in parts if p['kind'] == 'shared'}
    if any(p['kind'] == 'shared' for p in parts[1:]):
        feats.add('shared_atoms_in_a_later_molecule')
    return dict(kind='embed', system=True, base_string=base, frag_string=frag, ctor='string', variant='resolved', sub_seed=2 * rng.randrange(10 ** 5),
                conformer=False, nheavy=sum(p['nheavy'] for p in parts), features=sorted(feats))


def unstrained(case):
    """embedding oracle domain: rings of 5+ atoms that share no atom (no fused / bridged / tiny rings),
    for which a force-field geometry keeps every bond near its covalent length"""
    t = MC.truth_from_json(case['truth'])
    cycles = nx.cycle_basis(t)
    seen = set()
    for c in cycles:
        if len(c) < 5 or seen & set(c):
            return False
        seen |= set(c)
        # a triple bond or two cumulated double bonds want 180 degrees: inside a ring of fewer than nine atoms no geometry
        # keeps all bonds near their covalent length (cyclohexa-diyne came back with a 0.35 A bond)
        if len(c) < 9:
            ring = set(c)
            for a in c:
                orders = [d['order'] for _, b, d in t.edges(a, data=True) if b in ring]
                if 3 in orders or orders.count(2) >= 2:
                    return False
    return True


def variant_graph(rng, aa, variant):
    """copy of the resolved molecule with a different node iteration order / key set"""
    nodes = list(aa.nodes)
    if variant == 'resolved':
        return aa.copy()
    keys = {n: n for n in nodes}
    if variant == 'resolved_sparse':
        new = rng.sample(range(3 * len(nodes) + 5), len(nodes))
        keys = dict(zip(nodes, new))
    rng.shuffle(nodes)
    g = nx.Graph()
    for n in nodes:
        g.add_node(keys[n], **{k: v for k, v in aa.nodes[n].items() if k in ('element', 'charge', 'hcount', 'aromatic', 'weight', 'fragid')})
    edges = list(aa.edges(data=True))
    rng.shuffle(edges)
    for a, b, d in edges:
        g.add_edge(keys[a], keys[b], order=d.get('order', 1))
    return g


def raw_graph(case):
    """generator molecule without explicit hydrogens (hcount attribute, pysmiles style)"""
    t = MC.truth_from_json(case['truth'])
    g = nx.Graph()
    arom = {n for a, b, d in t.edges(data=True) if d['order'] == 1.5 for n in (a, b)}
    for n, d in t.nodes(data=True):
        g.add_node(n, element=d['element'], charge=d['charge'], hcount=d['nh'], aromatic=n in arom)
    for a, b, d in t.edges(data=True):
        g.add_edge(a, b, order=d['order'])
    return g


def chem_signature(g):
    """heavy-atom graph with total H count per atom (explicit H neighbours + hcount)"""
    t = nx.Graph()
    for n, d in g.nodes(data=True):
        if d.get('element') != 'H':
            nh = d.get('hcount', 0) + sum(1 for x in g[n] if g.nodes[x].get('element') == 'H')
            t.add_node(n, element=d.get('element'), charge=d.get('charge', 0), nh=nh)
    for a, b, d in g.edges(data=True):
        if a in t and b in t:
            t.add_edge(a, b, order=d.get('order', 1))
    return t


def same_atoms(a, b):
    """isomorphic on element, formal charge and hydrogen count, bond orders left aside"""
    return (len(a) == len(b) and a.number_of_edges() == b.number_of_edges() and
            nx.is_isomorphic(a, b, node_match=lambda x, y: (x['element'], x['charge'], x['nh']) == (y['element'], y['charge'], y['nh'])))


def rdkit_agrees(case):
    return rdkit_status(case) == 'agrees'


def rdkit_status(case):
    """how RDKit, given the generator's Kekule structure, sees the molecule: 'agrees' (accepted, same aromatic bonds, same
    hydrogens and charges), 'hypervalent', 'rejected', 'aromaticity_differs' (accepted, same atoms, but other bonds are
    flagged aromatic - pyrrole, furan, thiophene, imidazole rings written in Kekule form) or 'atoms_differ'"""
    from rdkit import Chem
    t = MC.truth_from_json(case['truth'])
    # hypervalent centres (N(V), P(V), S(IV/VI)) are normalised by RDKit's clean-up in an atom-order
    # dependent way (P(=O)(=C) became [P+]-[O-] for one ordering only): outside the comparison's domain
    for n, d in t.nodes(data=True):
        tot = sum(e['order'] for _, _, e in t.edges(n, data=True)) + d['nh']
        if abs(tot - M.VAL[(d['element'], d['charge'])][0]) > 1e-9:
            return 'hypervalent'
    mol = Chem.RWMol()
    idx = {}
    for n, d in t.nodes(data=True):
        a = Chem.Atom(d['element'])
        a.SetFormalCharge(d['charge'])
        a.SetNoImplicit(False)
        idx[n] = mol.AddAtom(a)
    # kekulise the generator's aromatic six-rings (alternating)
    arom_edges = [(a, b) for a, b, d in t.edges(data=True) if d['order'] == 1.5]
    ag = nx.Graph(arom_edges)
    double = set()
    for comp in nx.connected_components(ag):
        cyc = nx.cycle_basis(ag.subgraph(comp))
        for c in cyc:
            for k in range(0, len(c), 2):
                double.add(frozenset((c[k], c[(k + 1) % len(c)])))
    bt = {1: Chem.BondType.SINGLE, 2: Chem.BondType.DOUBLE, 3: Chem.BondType.TRIPLE}
    for a, b, d in t.edges(data=True):
        o = d['order']
        if o == 1.5:
            o = 2 if frozenset((a, b)) in double else 1
        mol.AddBond(idx[a], idx[b], bt[o])
    try:
        m = mol.GetMol()
        Chem.SanitizeMol(m)
    except Exception:
        return 'rejected'
    got = {frozenset((b.GetBeginAtomIdx(), b.GetEndAtomIdx())) for b in m.GetBonds() if b.GetIsAromatic()}
    want = {frozenset((idx[a], idx[b])) for a, b in arom_edges}
    for n, d in t.nodes(data=True):
        at = m.GetAtomWithIdx(idx[n])
        if at.GetTotalNumHs() != d['nh'] or at.GetFormalCharge() != d['charge']:
            return 'atoms_differ'
    if got != want:
        return 'aromaticity_differs'
    for a, b, d in t.edges(data=True):
        bo = m.GetBondBetweenAtoms(idx[a], idx[b]).GetBondTypeAsDouble()
        if bo != d['order']:
            return 'atoms_differ'
    return 'agrees'


def run(case):
    from rdkit import Chem, RDLogger
    from rdkit.Chem import AllChem
    import numpy as np
    from cgsmiles.rdkit import networkx_to_rdkit, rdkit_to_networkx, embed_3d_via_rdkit
    from cgsmiles.coordinates import forward_map_molecule
    RDLogger.DisableLog('rdApp.*')
    if case.get('kind') == 'chainmap':
        return run_chainmap(case)
    contracts.clear()
    rng = random.Random(case['sub_seed'])
    viol, rejected, counters = [], {}, {}
    txt = MC.case_text(case)
    if case['sub_seed'] % 4 == 1:
        # other users of the library in the same process (mass of a plain SMILES molecule, hydrogens of a graph that has
        # no weights): nothing they do may leak into the molecule resolved and mapped next
        try:
            import pysmiles
            from cgsmiles.pysmiles_utils import compute_mass, rebuild_h_atoms
            compute_mass(pysmiles.read_smiles(['CCO', 'c1ccccc1', 'CC(=O)[O-]', 'N'][case['sub_seed'] % 3]))
            rebuild_h_atoms(pysmiles.read_smiles('CCN', explicit_hydrogen=False))
            counters['unrelated_library_calls_before'] = 1
        except Exception:
            pass
    kind = case['kind']
    cls = (kind, tuple(case['features']), case['nheavy'])
    if kind in ('round', 'embed') and not case.get('system'):
        status = case.get('rdkit_status') or rdkit_status(case)
        if not (status == 'agrees' or (status == 'aromaticity_differs' and kind == 'round')):
            return {'violations': [], 'rejected': {'rdkit_' + status: 1}, 'nontrivial': False, 'cls': ('skipped',), 'sample': txt}
    res = MC.resolve_case(case)
    if res['error']:
        return {'violations': [], 'rejected': {'not_resolvable_judged_by_C01': 1}, 'nontrivial': False, 'cls': ('skipped',), 'sample': txt}
    aa, cg = res['aa'], res['cg']
    if kind == 'round':
        g = raw_graph(case) if case['variant'] == 'raw' else variant_graph(rng, aa, case['variant'])
        want = chem_signature(g)
        try:
            mol = networkx_to_rdkit(g)
            if case['conformer']:
                try:     # the conformer is made by RDKit itself; its failures are not the bridge's
                    molh = Chem.AddHs(mol)
                    ok = AllChem.EmbedMolecule(molh, randomSeed=case['sub_seed'] % 10000 + 1) == 0
                except Exception:
                    ok = False
                if ok:
                    mol = molh
                else:
                    rejected['embedding_failed'] = 1
                    case = dict(case, conformer=False)
            back = rdkit_to_networkx(mol)
            got = chem_signature(back)
            if not same_atoms(got, want):
                viol.append(V('c18.roundtrip_atoms', f'{txt} [{case["variant"]}, conformer={case["conformer"]}]: round trip gives {M.describe(got)}, input {M.describe(want)} (elements / charges / hydrogen counts / connectivity)'))
            elif not M.same_molecule(got, want):
                viol.append(V('c18.roundtrip_bond_orders', f'{txt} [{case["variant"]}, conformer={case["conformer"]}]: round trip gives {M.describe(got)}, input {M.describe(want)}'))
            if case['conformer']:
                for n, d in back.nodes(data=True):
                    p = d.get('position')
                    if p is None or len(p) != 3 or not all(math.isfinite(x) for x in p):
                        viol.append(V('c18.roundtrip_position_missing', f'{txt}: node {n} has position {p!r} although the RDKit molecule has a conformer'))
                        break
            if not viol and case['sub_seed'] % 4 == 0:
                # history: the graph that came back is edited (one oxygen becomes sulfur, or a saturated carbon silicon) and
                # converted again: what goes in the second time is what must come back
                import collections
                cand = [(n, 'S') for n, d in back.nodes(data=True) if d.get('element') == 'O' and d.get('charge', 0) == 0 and not d.get('aromatic')]
                cand = cand or [(n, 'Si') for n, d in back.nodes(data=True) if d.get('element') == 'C' and d.get('charge', 0) == 0 and not d.get('aromatic')
                                and all(e.get('order', 1) == 1 for _, _, e in back.edges(n, data=True))]
                if cand:
                    n_, new_ = cand[case['sub_seed'] // 4 % len(cand)]
                    back.nodes[n_]['element'] = new_
                    want_el = collections.Counter(d.get('element') for _, d in back.nodes(data=True))
                    again = rdkit_to_networkx(networkx_to_rdkit(back))
                    got_el = collections.Counter(d.get('element') for _, d in again.nodes(data=True))
                    counters['second_round_trip_after_an_edit'] = 1
                    if got_el != want_el:
                        viol.append(V('c18.roundtrip_atoms', f'{txt} [{case["variant"]}]: the graph that came back was edited (atom {n_} -> {new_}) and converted again: elements {dict(want_el)} went in, {dict(got_el)} came back'))
        except Exception as err:
            viol.append(V('c18.roundtrip_exception.' + type(err).__name__, f'{txt} [{case["variant"]}, conformer={case["conformer"]}]: raised {type(err).__name__}: {err}'))
        counters['roundtrips'] = 1
    elif kind == 'embed':
        g = variant_graph(rng, aa, case['variant'])
        e2e = case['variant'] == 'resolved' and case['sub_seed'] % 2 == 0
        try:
            np.random.seed(case['sub_seed'] % 2 ** 31)
            if e2e:
                # the documented one-call route: embed the atoms, then place the beads
                from cgsmiles.coordinates import embedd_cg_molecule_via_rdkit
                g = aa
                embedd_cg_molecule_via_rdkit(cg, aa)
            else:
                out = embed_3d_via_rdkit(g)
            bad = None
            ratios = []
            for n in g.nodes:
                p = g.nodes[n].get('position')
                if p is None or len(p) != 3 or not all(math.isfinite(float(x)) for x in p):
                    bad = ('c18.embed_position_missing', f'{txt} [{case["variant"]}]: node {n} has position {p!r}')
                    break
            if bad is None:
                for a, b in g.edges:
                    ea, eb = g.nodes[a].get('element'), g.nodes[b].get('element')
                    if ea not in RADII or eb not in RADII:
                        continue
                    dist = float(np.linalg.norm(np.asarray(g.nodes[a]['position']) - np.asarray(g.nodes[b]['position'])))
                    ratio = dist / (RADII[ea] + RADII[eb])
                    ratios.append(ratio)
                    if not 0.70 <= ratio <= 1.25:
                        bad = ('c18.embed_bond_length', f'{txt} [{case["variant"]}]: bonded atoms {a} ({ea}) and {b} ({eb}) are {dist:.2f} A apart = {ratio:.2f} x the sum of their covalent radii')
                        break
            if bad is None and e2e:
                # a bead's own atoms and their weights are read off the MOLECULE (fragid and weight of each atom), not off
                # the fragment graph the library keeps on the bead
                for k in cg.nodes:
                    own = [n for n in aa.nodes if k in (aa.nodes[n].get('fragid') or [])]
                    if not own:
                        continue
                    w = {n: aa.nodes[n].get('weight', 1) for n in own}
                    if sum(w.values()) <= 0:
                        continue
                    want = sum(w[n] * np.asarray(aa.nodes[n]['position'], dtype=float) for n in own) / sum(w.values())
                    got = cg.nodes[k].get('position')
                    if got is None or not np.allclose(np.asarray(got, dtype=float), want, atol=1e-8, rtol=0):
                        bad = ('c18.bead_not_weighted_mean', f'{txt} [embed + forward map in one call]: bead {k} at {got}, weighted mean of its embedded atoms {want.tolist()} (atoms {own}, weights {[w[n] for n in own]})')
                        break
                counters['e2e_embed_and_map'] = 1
            if bad:
                viol.append(V(*bad))
            counters['embeddings'] = 1
            counters['bonds_measured'] = len(ratios)
        except ValueError as err:
            if 'Bad Conformer Id' in str(err) or 'conformer' in str(err).lower():
                rejected['embedding_failed'] = 1
            else:
                viol.append(V('c18.embed_exception.ValueError', f'{txt} [{case["variant"]}]: raised ValueError: {err}'))
        except Exception as err:
            viol.append(V('c18.embed_exception.' + type(err).__name__, f'{txt} [{case["variant"]}]: raised {type(err).__name__}: {err}'))
    else:
        # forward mapping with synthetic positions and weights
        pos = {n: np.array([rng.uniform(-5, 5) for _ in range(3)]) for n in aa.nodes}
        for n in aa.nodes:
            aa.nodes[n]['position'] = pos[n].copy()
        heavy_only = rng.random() < 0.5
        wts = {}
        for k in cg.nodes:
            gr = cg.nodes[k].get('graph')
            if gr is None:
                continue
            for n in gr.nodes:
                w = rng.choice([1.0, 1.0, 0.5, 0.25, 2.0, 0.1])
                if heavy_only and aa.nodes[n].get('element') == 'H':
                    w = rng.choice([1.0, 0.0])
                gr.nodes[n]['weight'] = w
                wts[(k, n)] = w
        try:
            forward_map_molecule(cg, aa)
            first = {k: np.array(cg.nodes[k]['position'], dtype=float) for k in cg.nodes if cg.nodes[k].get('graph') is not None and len(cg.nodes[k]['graph'])}
            for k, p in first.items():
                gr = cg.nodes[k]['graph']
                tot = sum(wts[(k, n)] for n in gr.nodes)
                if tot <= 0:
                    continue
                want = sum(wts[(k, n)] * pos[n] for n in gr.nodes) / tot
                if not np.allclose(p, want, atol=1e-9, rtol=0):
                    viol.append(V('c18.bead_not_weighted_mean', f'{txt}: bead {k} at {p.tolist()}, weight-normalised mean of its atoms {want.tolist()} (weights {[wts[(k, n)] for n in gr.nodes]})'))
                    break
            t = np.array([rng.uniform(-20, 20) for _ in range(3)])
            for n in aa.nodes:
                aa.nodes[n]['position'] = pos[n] + t
            forward_map_molecule(cg, aa)
            for k, p in first.items():
                gr = cg.nodes[k]['graph']
                if sum(wts[(k, n)] for n in gr.nodes) <= 0:
                    continue
                moved = np.array(cg.nodes[k]['position'], dtype=float) - p
                if not np.allclose(moved, t, atol=1e-8, rtol=0):
                    viol.append(V('c18.bead_not_translation_equivariant', f'{txt}: atoms moved by {t.tolist()}, bead {k} moved by {moved.tolist()}'))
                    break
            counters['beads_checked'] = len(first)
        except Exception as err:
            viol.append(V('c18.forward_map_exception.' + type(err).__name__, f'{txt}: raised {type(err).__name__}: {err}'))
    contracts.clear()
    return {'violations': viol, 'rejected': rejected, 'counters': counters, 'nontrivial': case['nheavy'] >= 2, 'cls': cls, 'sample': txt}
