"""C19 - 2D layout gives every node a finite position at the requested scale (icontract postcondition)."""
import math
import random

import networkx as nx

from ..oracles import V
from .. import hooks, contracts
from . import molcommon as MC

PROPERTY = 'C19'
LEVEL = 'exploration'
RULE = ('vespr_layout is wrapped with an icontract postcondition evaluated on EVERY call: one position per node, each a finite '
        '2-vector; no two bonded nodes closer than 1e-6 x the requested bond length; mean bond length == requested bond length '
        '(relative 1e-9). Workload: every connected graph-atlas graph with 2-7 nodes (quick: every 4th, thorough: all 995), '
        'chains, stars, rings, fused rings, grids and random trees up to 60 nodes, two chains of 100-130 bonds per run (one with side branches), resolver outputs with hydrogens and with '
        'cis/trans annotations (exercises the subgraph rotation); bond lengths {0.3, 1, 1.5, 7} and, less often, {0.002, 40, 250, 1.5e-10 (metres)}; node relabelings (shuffled '
        'integers, sparse integers, strings); a sixth of the graphs laid out a second time after an in-place edit with unchanged atom and bond counts; NumPy global RNG reseeded per call (spring initialisation). distinct = (graph '
        'class, size, relabeling, bond length); non-trivial = at least 3 nodes.')
ASSUMPTIONS = ['coincidence threshold 1e-6 x bond length (smallest bonded distance seen in probes: 0.46 x)',
               'graphs are connected and have at least one bond (premise of the property)']
MECHANISMS = [('cgsmiles.graph_layout', 'vespr_layout'), ('cgsmiles.graph_layout_utils', 'check_and_fix_cis_trans'),
              ('cgsmiles.graph_layout_utils', 'rotate_subgraph')]
REQUIRED_COUNTERS = ['postcondition_evaluations']
SIZES = {'quick': dict(atlas_step=4, synth=320, mol=240), 'thorough': dict(atlas_step=1, synth=8000, mol=6000)}
RECORDS = []
COUNT = [0]


class LayoutBroken(AssertionError):
    pass


def positions_ok(graph, default_bond, result):
    import numpy as np
    COUNT[0] += 1
    b = default_bond
    try:
        if set(result) != set(graph.nodes):
            RECORDS.append(('c19.missing_position', f'{len(graph)} nodes but positions for {len(result)}'))
            return True
        for n, p in result.items():
            arr = np.asarray(p, dtype=float)
            if arr.shape != (2,) or not np.all(np.isfinite(arr)):
                RECORDS.append(('c19.non_finite_position', f'node {n!r} has position {p!r}'))
                return True
        dists = [float(np.linalg.norm(np.asarray(result[a], dtype=float) - np.asarray(result[c], dtype=float))) for a, c in graph.edges]
        if not dists:
            return True
        if min(dists) < 1e-6 * b:
            RECORDS.append(('c19.bonded_nodes_coincide', f'smallest bonded distance {min(dists)} for bond length {b}'))
        mean = sum(dists) / len(dists)
        # zero-order (virtual) edges may or may not be regarded as bonds: accept either reading
        real = [d for d, (a, c, o) in zip(dists, graph.edges(data='order', default=1)) if o != 0]
        mean_real = sum(real) / len(real) if real else mean
        if not (math.isclose(mean, b, rel_tol=1e-9, abs_tol=0) or math.isclose(mean_real, b, rel_tol=1e-9, abs_tol=0)):
            RECORDS.append(('c19.scale', f'mean bond length {mean!r} (without zero-order edges {mean_real!r}), requested {b!r}'))
    except Exception as err:
        RECORDS.append(('c19.malformed_result', f'{type(err).__name__}: {err}'))
    return True


def setup():
    import icontract

    def factory(orig):
        def layout_postcondition(graph, result, default_bond=1, align_with=None):
            return positions_ok(graph, default_bond, result)
        return icontract.ensure(layout_postcondition, error=LayoutBroken)(orig)
    hooks.wrap_attr('cgsmiles.graph_layout', 'vespr_layout', factory, also=['cgsmiles.drawing'])


BONDS = [0.3, 1, 1.5, 7, 0.3, 1, 1.5, 7, 40, 250, 0.002, 1.5e-10]


def synth_graph(rng):
    kind = rng.choice(['chain', 'star', 'ring', 'fused', 'grid', 'tree', 'ladder', 'spiro'])
    n = rng.choice([2, 3, 5, 8, 13, 21, 40, 60])
    if kind == 'chain':
        g = nx.path_graph(n)
    elif kind == 'star':
        g = nx.star_graph(min(n, 12))
    elif kind == 'ring':
        g = nx.cycle_graph(max(3, min(n, 24)))
    elif kind == 'fused':
        g = nx.cycle_graph(6)
        k = 6
        for _ in range(rng.randint(1, 4)):
            a, b = rng.choice(list(g.edges))
            new = list(range(k, k + 4))
            k += 4
            nx.add_path(g, [a] + new + [b])
    elif kind == 'grid':
        g = nx.convert_node_labels_to_integers(nx.grid_2d_graph(rng.randint(2, 5), rng.randint(2, 6)))
    elif kind == 'ladder':
        g = nx.ladder_graph(max(2, min(n // 2, 12)))
    elif kind == 'spiro':
        g = nx.cycle_graph(5)
        nx.add_cycle(g, [0, 5, 6, 7, 8])
    else:
        g = nx.Graph()
        g.add_node(0)
        for i in range(1, n):
            g.add_edge(rng.randrange(i), i)
    return kind, g


def relabel(rng, g, how):
    nodes = list(g.nodes)
    if how == 'ints':
        keys = list(range(len(nodes)))
        rng.shuffle(keys)
    elif how == 'sparse':
        keys = rng.sample(range(5 * len(nodes) + 5), len(nodes))
    elif how == 'str':
        keys = ['n%03d' % k for k in rng.sample(range(999), len(nodes))]
    else:
        return g
    m = dict(zip(nodes, keys))
    ins = list(nodes)
    rng.shuffle(ins)
    h = nx.Graph()
    for n in ins:
        h.add_node(m[n], **g.nodes[n])
    for a, b, d in g.edges(data=True):
        h.add_edge(m[a], m[b], **d)
    return h


def cases(seed, tier, shard, nshards):
    cfg = SIZES[tier]
    rng = random.Random(f'{seed}:C19:{tier}:{shard}')
    from networkx.generators.atlas import graph_atlas_g
    atlas = [(i, g) for i, g in enumerate(graph_atlas_g()) if 2 <= len(g) <= 7 and nx.is_connected(g)]
    for k, (i, g) in enumerate(atlas):
        if k % cfg['atlas_step'] != (seed + shard) % cfg['atlas_step'] and cfg['atlas_step'] > 1:
            continue
        if (k // cfg['atlas_step']) % nshards != shard:
            continue
        yield dict(kind='atlas', gid=i, edges=[list(e) for e in g.edges], nodes=list(g.nodes), how=rng.choice(['same', 'ints', 'sparse', 'str']),
                   bond=rng.choice(BONDS), sub=rng.randrange(10 ** 6), features=['atlas'])
    for _ in range(cfg['synth'] // nshards):
        kind, g = synth_graph(rng)
        yield dict(kind=kind, gid=len(g), edges=[list(e) for e in g.edges], nodes=list(g.nodes), how=rng.choice(['same', 'ints', 'sparse', 'str']),
                   bond=rng.choice(BONDS), sub=rng.randrange(10 ** 6), features=[kind])
    # polymer backbones: chains (one of them with short side branches) whose topological diameter is 100-130 bonds
    if shard == seed % nshards:
        for branched in (False, True):
            n = rng.choice([101, 110, 131])
            g = nx.path_graph(n)
            if branched:
                for k in range(5, n, 9):
                    g.add_edge(k, len(g))
            yield dict(kind='long_chain', gid=len(g), edges=[list(e) for e in g.edges], nodes=list(g.nodes), how='same',
                       bond=rng.choice([1.0, 0.4]), sub=rng.randrange(10 ** 6), features=['chain_of_100plus_bonds'])
    # graphs whose edges carry bond orders, zero-order (virtual) edges included
    from ..gen import mol as M_
    for _ in range(cfg['synth'] // (2 * nshards)):
        g = M_.gen_coarse_graph(rng, rng.choice([2, 3, 5, 9, 16]), orders=(0, 1, 1, 1, 2, 3))
        if not any(d['order'] >= 1 for _, _, d in g.edges(data=True)):
            continue      # premise: at least one bond
        yield dict(kind='ordered', gid=len(g), edges=[[a, b, d['order']] for a, b, d in g.edges(data=True)], nodes=list(g.nodes),
                   how=rng.choice(['same', 'ints', 'str']), bond=rng.choice(BONDS), sub=rng.randrange(10 ** 6),
                   features=['bond_orders'] + (['zero_order_edge'] if any(d['order'] == 0 for _, _, d in g.edges(data=True)) else []))
    # the drawing entry point: several drawings in one process must each come out at the scale asked for
    for _ in range(max(1, (cfg['mol'] // 6) // nshards)):
        c = MC.random_cut_case(rng, rng.choice([3, 6, 10]), ctor='string')
        if c is None:
            continue
        yield dict(kind='draw', string=c['base_string'] + '.' + c['frag_string'], bonds=rng.sample([0.4, 1, 1.75, 2.5, 3], 3),
                   bond=0, sub=rng.randrange(10 ** 6), features=['draw_molecule_sequence'], gid=c['nheavy'], how='same')
    made = 0
    from . import c15
    while made < cfg['mol'] // nshards:
        if rng.random() < 0.5:
            c = c15.make_case(rng)
            if c is None:
                continue
            yield dict(kind='stereo_molecule', string=c['single'], bond=rng.choice(BONDS), sub=rng.randrange(10 ** 6),
                       features=['resolved_molecule', 'cis_trans_annotations'], gid=c['ndb'], how='same')
        else:
            c = MC.random_cut_case(rng, rng.choice([3, 6, 10, 16]), ctor='string')
            if c is None:
                continue
            yield dict(kind='molecule', string=c['base_string'] + '.' + c['frag_string'], bond=rng.choice(BONDS),
                       sub=rng.randrange(10 ** 6), features=['resolved_molecule'], gid=c['nheavy'], how=rng.choice(['same', 'coarse']))
        made += 1


def run_draw(case):
    import os
    os.environ.setdefault('MPLBACKEND', 'Agg')
    import numpy as np
    from cgsmiles import MoleculeResolver
    del RECORDS[:]
    before = COUNT[0]
    viol = []
    try:
        import matplotlib
        matplotlib.use('Agg')
        import matplotlib.pyplot as plt
        from cgsmiles.drawing import draw_molecule
        cg, aa = MoleculeResolver.from_string(case['string']).resolve()
    except Exception:
        return {'violations': [], 'rejected': {'drawing_not_available_or_not_resolvable': 1}, 'nontrivial': False, 'cls': 'skipped'}
    if aa.number_of_edges() == 0 or not nx.is_connected(aa):
        return {'violations': [], 'rejected': {'no_bond_or_disconnected': 1}, 'nontrivial': False, 'cls': 'skipped'}
    for b in case['bonds']:
        fig, ax = plt.subplots()
        try:
            np.random.seed(case['sub'] % (2 ** 31))
            _ax, pos = draw_molecule(aa, ax=ax, layout_method='vespr', default_bond=b)
            d = [float(np.linalg.norm(np.asarray(pos[a], dtype=float) - np.asarray(pos[c], dtype=float))) for a, c in aa.edges]
            mean = sum(d) / len(d)
            if set(pos) != set(aa.nodes) or not all(np.all(np.isfinite(np.asarray(p, dtype=float))) for p in pos.values()):
                viol.append(V('c19.draw_positions', f'{case["string"]}: draw_molecule(default_bond={b}) returned positions for {len(pos)} of {len(aa)} nodes / non-finite'))
            elif not math.isclose(mean, b, rel_tol=1e-9):
                viol.append(V('c19.draw_scale', f'{case["string"]}: drawings with default_bond {case["bonds"]} in one process; the one asked for {b} has mean bond length {mean!r}'))
        except Exception as err:
            viol.append(V('c19.draw_exception.' + type(err).__name__, f'{case["string"]}: draw_molecule(default_bond={b}) raised {type(err).__name__}: {err}'))
        finally:
            plt.close(fig)
    for clause, msg in RECORDS:
        viol.append(V(clause, f'{case["string"]} (inside draw_molecule): {msg}'))
    del RECORDS[:]
    return {'violations': viol, 'counters': {'postcondition_evaluations': COUNT[0] - before, 'drawings': len(case['bonds'])}, 'nontrivial': True,
            'evaluations': len(case['bonds']), 'cls': ('draw', case['gid'], tuple(case['bonds'])), 'sample': case['string']}


def run(case):
    import numpy as np
    from cgsmiles.graph_layout import vespr_layout
    contracts.clear()
    del RECORDS[:]
    before = COUNT[0]
    rng = random.Random(case['sub'])
    viol = []
    if case['kind'] == 'draw':
        return run_draw(case)
    if 'string' in case:
        from cgsmiles import MoleculeResolver
        try:
            cg, aa = MoleculeResolver.from_string(case['string']).resolve()
        except Exception:
            return {'violations': [], 'rejected': {'not_resolvable': 1}, 'nontrivial': False, 'cls': 'skipped'}
        g = cg if case['how'] == 'coarse' else aa
        if g.number_of_edges() == 0 or not nx.is_connected(g):
            return {'violations': [], 'rejected': {'no_bond_or_disconnected': 1}, 'nontrivial': False, 'cls': 'skipped'}
        txt = case['string'] + (' (coarse graph)' if case['how'] == 'coarse' else '')
    else:
        g0 = nx.Graph()
        g0.add_nodes_from(case['nodes'])
        for e in case['edges']:
            if len(e) == 3:
                g0.add_edge(e[0], e[1], order=e[2])
            else:
                g0.add_edge(e[0], e[1])
        g = relabel(rng, g0, case['how'])
        txt = f"{case['kind']} graph {case['gid']} edges {case['edges'][:30]} relabel={case['how']}"
    if case['sub'] % 7 == 0:
        # the graph already carries 3D coordinates (embedded or read from a file), in an orientation in which bonds point
        # along z: atoms stacked on one xy point, a linear molecule on the z axis, or random coordinates with one vertical bond
        mode = (case['sub'] // 7) % 3
        prng = random.Random(case['sub'])
        for i, n in enumerate(g.nodes):
            if mode == 0:
                g.nodes[n]['position'] = np.array([0.0, 0.0, 1.5 * i])
            else:
                g.nodes[n]['position'] = np.array([prng.uniform(-4, 4), prng.uniform(-4, 4), prng.uniform(-4, 4)])
        if mode == 2 and g.number_of_edges():
            a_, b_ = next(iter(g.edges))
            g.nodes[b_]['position'] = g.nodes[a_]['position'] + np.array([0.0, 0.0, 1.1])
        txt += ' [nodes carry 3D positions, mode %d]' % mode
    np.random.seed(case['sub'] % (2 ** 31))
    # (the axis as float array and as integer array, as a caller writes np.array([1, 1]))
    align = [None, None, np.array([1.0, 0.0]), np.array([0.0, 1.0]), np.array([1.0, 1.0]), np.array([1, 1]), np.array([2, 1]), np.array([3, -4])][case['sub'] % 8]
    if case['sub'] % 5 == 3:
        # the bond length as a numpy scalar (an element of an array of settings) instead of a Python number
        case = dict(case, bond=(np.int64(case['bond']) if float(case['bond']).is_integer() else np.float32(case['bond'])))
        txt += f' [bond length given as {type(case["bond"]).__name__}]'
    positional = case['sub'] % 3 == 1       # the bond length (and the axis) handed over by position instead of by keyword
    try:
        if align is None:
            vespr_layout(g, case['bond']) if positional else vespr_layout(g, default_bond=case['bond'])
        else:
            vespr_layout(g, case['bond'], align) if positional else vespr_layout(g, default_bond=case['bond'], align_with=align)
            txt += f' align_with={align.tolist()}'
        if positional:
            txt += ' [arguments by position]'
    except Exception as err:
        viol.append(V('c19.exception.' + type(err).__name__, f'{txt} bond={case["bond"]}: vespr_layout raised {type(err).__name__}: {err}'))
    for clause, msg in RECORDS:
        viol.append(V(clause, f'{txt} bond={case["bond"]}: {msg}'))
    del RECORDS[:]
    edited = 0
    if case['sub'] % 6 == 2 and not viol and len(g) >= 4 and not nx.get_node_attributes(g, 'ez_isomer'):
        # (cis/trans annotations name atoms by key: such a graph cannot be edited without rewriting them, so it is left alone)
        # history on ONE graph object: laid out, then edited in place with the same number of atoms and bonds (a bond moved,
        # or one atom renamed), then laid out again with the same settings; the second layout is judged like any other
        leaves = [n for n in g if g.degree(n) == 1]
        how = None
        if leaves and (case['sub'] // 6) % 2 == 0:
            l_ = leaves[0]
            p_ = next(iter(g[l_]))
            others = [q for q in g if q not in (l_, p_)]
            if others:
                q_ = others[(case['sub'] // 12) % len(others)]
                attrs = dict(g.edges[l_, p_])
                g.remove_edge(l_, p_)
                g.add_edge(l_, q_, **attrs)
                how = f'bond {l_}-{p_} moved to {l_}-{q_}'
        if how is None:
            old = list(g.nodes)[(case['sub'] // 12) % len(g)]
            nx.relabel_nodes(g, {old: ('renamed', str(old))}, copy=False)
            how = f'node {old!r} renamed in place'
        try:
            if align is None:
                vespr_layout(g, default_bond=case['bond'])
            else:
                vespr_layout(g, default_bond=case['bond'], align_with=align)
            edited = 1
        except Exception as err:
            viol.append(V('c19.exception.' + type(err).__name__, f'{txt} bond={case["bond"]}, laid out a second time after {how}: vespr_layout raised {type(err).__name__}: {err}'))
        for clause, msg in RECORDS:
            viol.append(V(clause, f'{txt} bond={case["bond"]}, laid out a second time after {how}: {msg}'))
        del RECORDS[:]
    contracts.clear()
    return {'violations': viol, 'counters': {'postcondition_evaluations': COUNT[0] - before, 'second_layout_after_in_place_edit': edited}, 'nontrivial': len(g) >= 3,
            'cls': (case['kind'], case['gid'], case['how'], case['bond']), 'sample': txt}
