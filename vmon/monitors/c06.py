"""C06 - layered resolutions compose (metamorphic over hierarchies + driver histories)."""
import random

from ..gen import mol as M
from ..gen import ambig
from ..oracles import V
from .. import contracts, util
from . import molcommon as MC

PROPERTY = 'C06'
LEVEL = 'exploration'
RULE = ('unique-label cut molecules (atomistic last level) and cut coarse graphs (coarse last level) whose fragments are grouped '
        'recursively into 1-3 intermediate levels; every inter-group fragment pair with c cut bonds becomes one uniquely '
        'labelled coarse descriptor pair of order c and the group-level edge order is the number of such pairs. Oracle: '
        'resolve_all() of the k-level string == resolve_all() of the two-level string == ground truth; in resolve_iter() the '
        'coarse graph of step i+1 IS the fine graph of step i, and the bonds (order, descriptor pair) and node names a step handed out '
        'are still the same after the resolver has moved on; the C02/C03 post-state contract holds at every step; repeated '
        'resolve(), resolve_iter() and resolve_all() on three fresh resolvers give identical canonical dumps. 30 % of the cases '
        'are polymer-style inputs (non-unique descriptors, "." bonds, multipliers, both conventions) written one level down '
        'inside a single coarse fragment "{[#SYS]}.{#SYS=...}.{units}": same final molecule as the flattened string. '
        'distinct = (feature set, levels, #heavy, #fragments); non-trivial = at least 3 levels.')
ASSUMPTIONS = ['documentation example strings are included verbatim (block copolymer, mPEG two- vs three-level)']
MECHANISMS = [('cgsmiles.resolve', 'MoleculeResolver.resolve'), ('cgsmiles.resolve', 'MoleculeResolver.resolve_iter'),
              ('cgsmiles.resolve', 'MoleculeResolver.resolve_all'), ('cgsmiles.cgsmiles_utils', 'read_fragment_cgsmiles')]
SIZES = {'quick': 2000, 'thorough': 40000}
DOC_CASES = [
    ("{[#B1][#B2][#B1]}.{#B1=[#PEO]|4,#B2=[#PE]|2}.{#PEO=[>]COC[<],#PE=[>]CC[<]}", None),
]


def setup():
    contracts.install()


def cases(seed, tier, shard, nshards):
    rng = random.Random(f'{seed}:C06:{tier}:{shard}')
    made = 0
    while made < SIZES[tier] // nshards:
        if rng.random() < 0.1:
            made += 1
            yield block_copolymer_case(rng)
            continue
        if rng.random() < 0.3:
            a = ambig.random_case(rng)
            if a is None:
                continue
            cut = a['string'].index('}.{')
            body, frag = a['string'][1:cut], a['string'][cut + 2:]
            tops = rng.choice(['{[#SYS]}', '{[#SYS]}', '{[#SYS].[#SYS]}', '{[#SYS].[#V]}'])
            n_top = tops.count('#SYS')
            made += 1
            yield dict(kind='ambig_layered', multi_string=tops + '.{#SYS=' + body + '}.' + frag,
                       two_level='{' + '.'.join([body] * n_top) + '}.' + frag, coarse_last=a['coarse'], legacy=a['legacy'], nlevels=2,
                       features=sorted(set(a['features']) | {'polymer_units_one_level_down'} | ({'zero_order_bond_inside_intermediate_fragment'} if '.' in body else set())))
            continue
        c = MC.random_multilevel_case(rng, rng.choice([6, 10, 16]), coarse_last=rng.random() < 0.3)
        if c is None:
            continue
        made += 1
        yield c


MONOMERS = {'EO': '[<]COC[>]', 'PP': '[<]CC(C)[>]', 'ST': '[<]CC([>])c1ccccc1', 'VA': '[<]CC([>])OC(C)=O', 'AM': '[<]NCC(=O)[>]'}


def block_copolymer_case(rng):
    """head-to-tail block copolymers over three levels: blocks (whose names repeat with other blocks in between) made of
    monomer beads made of atoms, all joined by unlabelled directional descriptors; flattening = the bead sequence written out"""
    monos = rng.sample(sorted(MONOMERS), rng.choice([2, 3]))
    blocks = {}
    runs = rng.random() < 0.4
    long_left = 1
    for name in rng.sample(['X', 'Y', 'Z'], rng.choice([2, 3])):
        seq = [rng.choice(monos) for _ in range(rng.randint(1, 4))]
        if runs:
            # homopolymer runs, spelled with the expansion operator inside the block definition (one of them with a
            # two-digit count): [<][#EO]|12[#PP][>] - the closing descriptor sits on the last copy
            seq = []
            for _ in range(rng.randint(1, 3)):
                k = rng.choice([10, 11, 12]) if long_left and rng.random() < 0.5 else rng.choice([1, 2, 3, 4])
                long_left -= k >= 10
                seq += [rng.choice(monos)] * k
        blocks[name] = seq
    names = sorted(blocks)
    order = [rng.choice(names) for _ in range(rng.randint(3, 6))]
    if len(set(order)) == len(order) or all(a == b for a, b in zip(order, order[1:])):
        order = [names[0], names[-1], names[0]] + order[3:]
    spell = lambda seq: ''.join('[#%s]' % m for m in seq)
    caps = True     # without end caps the first block has both descriptors open and the greedy pairing may turn it round:
                    # layered and flattened strings then legitimately differ (seen on the unchanged tree), outside the quantifier
    def spell_runs(seq):
        out, i = '', 0
        while i < len(seq):
            j = i
            while j < len(seq) and seq[j] == seq[i]:
                j += 1
            out += '[#%s]' % seq[i] + ('|%d' % (j - i) if j - i > 1 else '')
            i = j
        return out
    lvl1 = (['#S=[#ME][>]', '#E=[<][#OH]'] if caps else []) + ['#%s=[<]%s[>]' % (n, (spell_runs if runs else spell)(blocks[n])) for n in names]
    lvl2 = (['#ME=C[>]', '#OH=[<]O'] if caps else []) + ['#%s=%s' % (m, MONOMERS[m]) for m in monos]
    rng.shuffle(lvl1)
    rng.shuffle(lvl2)
    multi = '{' + ('[#S]' if caps else '') + spell(order) + ('[#E]' if caps else '') + '}.{' + ','.join(lvl1) + '}.{' + ','.join(lvl2) + '}'
    flat = '{' + ('[#ME]' if caps else '') + ''.join(spell(blocks[n]) for n in order) + ('[#OH]' if caps else '') + '}.{' + ','.join(lvl2) + '}'
    return dict(kind='ambig_layered', multi_string=multi, two_level=flat, coarse_last=False, legacy=True, nlevels=2,
                features=['block_copolymer_three_levels', 'repeated_block_names_not_adjacent', 'blocks_%d' % len(order)] + (['runs_spelled_with_the_expansion_operator'] if runs else []))


def final_matches(case, aa, truth):
    if case.get('coarse_last'):
        return MC.coarse_result_matches(aa, truth), ''
    heavy, problems = M.collapse_h(aa)
    return (not problems and M.same_molecule(heavy, truth)), M.describe(heavy)


def run_ambig_layered(case):
    """polymer-style units (non-unique descriptors, '.' bonds, multipliers) written one level down inside a single
    coarse fragment: the layered string and its flattening must end in the same molecule"""
    import networkx as nx
    from cgsmiles import MoleculeResolver
    contracts.clear()
    viol = []
    kw = dict(last_all_atom=not case['coarse_last'], legacy=case['legacy'])
    contracts.CONTEXT['uncontrolled_aromatic'] = True
    multi, two = case['multi_string'], case['two_level']
    key = 'fragname' if case['coarse_last'] else 'element'
    nontrivial = False
    try:
        try:
            cg2, aa2 = MoleculeResolver.from_string(two, **kw).resolve_all()
        except Exception:
            cg2 = aa2 = None       # the flattening itself is rejected (judged by C03/C20): nothing to compare with
        if aa2 is not None:
            cg, aa = MoleculeResolver.from_string(multi, **kw).resolve_all()
            nontrivial = True
            same = (len(aa) == len(aa2) and aa.number_of_edges() == aa2.number_of_edges()
                    and nx.is_isomorphic(aa, aa2, node_match=lambda a, b: a.get(key) == b.get(key) and a.get('charge', 0) == b.get('charge', 0),
                                         edge_match=lambda a, b: a.get('order') == b.get('order')))
            if not same:
                viol.append(V('c06.layered_vs_flattened', f'{multi} {kw} ends in {len(aa)} nodes / {aa.number_of_edges()} bonds / {nx.number_connected_components(aa)} molecules, '
                              f'its flattening {two} in {len(aa2)} nodes / {aa2.number_of_edges()} bonds / {nx.number_connected_components(aa2)} molecules'))
    except Exception as err:
        viol.append(V('c06.exception.' + type(err).__name__, f'{multi} {kw} raised {type(err).__name__}: {err} although its flattening {two} resolves'))
    contracts.CONTEXT.pop('uncontrolled_aromatic', None)
    for rec in contracts.take('C02') + contracts.take('C03') + contracts.take('C06'):
        viol.append(V('c06.step_' + rec['clause'], f'{multi} :: {rec["msg"]}'))
    contracts.clear()
    return {'violations': viol, 'nontrivial': nontrivial, 'sample': multi, 'cls': ('ambig_layered', tuple(case['features']))}


def run(case):
    if case.get('kind') == 'ambig_layered':
        return run_ambig_layered(case)
    from cgsmiles import MoleculeResolver
    contracts.clear()
    viol = []
    coarse_last = case.get('coarse_last', False)
    truth = MC.coarse_truth(case['truth']) if coarse_last else MC.truth_from_json(case['truth'])
    kw = dict(last_all_atom=not coarse_last)
    multi, two = case['multi_string'], case['two_level']
    try:
        r = MoleculeResolver.from_string(multi, **kw)
        prev_fine = None
        steps = 0
        snaps = []
        for cg, aa in r.resolve_iter():
            steps += 1
            if prev_fine is not None and cg is not prev_fine:
                viol.append(V('c06.coarse_is_not_previous_fine', f'{multi}: at step {steps} the coarse graph is not the previous step\'s fine graph'))
            prev_fine = aa
            # what this step hands out: its bonds with order and the descriptor pair that made them
            snaps.append((steps, aa, {frozenset(e[:2]): (e[2].get('order'), tuple(e[2].get('bonding') or ())) for e in aa.edges(data=True)},
                          {n: (d.get('atomname'), d.get('element')) for n, d in aa.nodes(data=True)}))
        final = aa
        # the resolver has moved on: the bonds (and names) of the graphs handed out by EARLIER steps still say the same
        for step_no, gobj, edges0, nodes0 in snaps[:-1]:
            edges1 = {frozenset(e[:2]): (e[2].get('order'), tuple(e[2].get('bonding') or ())) for e in gobj.edges(data=True)}
            nodes1 = {n: (d.get('atomname'), d.get('element')) for n, d in gobj.nodes(data=True)}   # 'fragname' is re-labelled by design when the graph becomes the next step's coarse graph
            if edges1 != edges0 or nodes1 != nodes0:
                diff = [(sorted(k), edges0.get(k), edges1.get(k)) for k in set(edges0) | set(edges1) if edges0.get(k) != edges1.get(k)][:3]
                viol.append(V('c06.earlier_step_changed_afterwards', f'{multi}: the graph returned by step {step_no} was altered by later steps: (bond, as returned, now) {diff}'))
                break
        if steps != case['nlevels']:
            viol.append(V('c06.level_count', f'{multi}: resolve_iter yielded {steps} steps, the string has {case["nlevels"]} fragment levels'))
        ok, desc = final_matches(case, final, truth)
        if not ok:
            viol.append(V('c06.multi_vs_truth', f'{multi} ends in a different molecule than the two-level string {two}: {desc}'))
        # drivers
        d_iter = (util.canonical_dump(cg), util.canonical_dump(final))
        r2 = MoleculeResolver.from_string(multi, **kw)
        for _ in range(case['nlevels']):
            cg2, aa2 = r2.resolve()
        r3 = MoleculeResolver.from_string(multi, **kw)
        cg3, aa3 = r3.resolve_all()
        if (util.canonical_dump(cg2), util.canonical_dump(aa2)) != d_iter:
            viol.append(V('c06.drivers_differ', f'{multi}: repeated resolve() and resolve_iter() disagree'))
        if (util.canonical_dump(cg3), util.canonical_dump(aa3)) != d_iter:
            viol.append(V('c06.drivers_differ', f'{multi}: resolve_all() and resolve_iter() disagree'))
        # the other two constructors on the same hierarchy
        cut = multi.index('}.{')
        for ctor in ('from_graph', 'from_fragment_dicts'):
            cc = dict(base_string=multi[:cut + 1], frag_string=multi[cut + 2:], ctor=ctor)
            if ctor == 'from_graph':
                import cgsmiles
                bg = cgsmiles.read_cgsmiles(cc['base_string'])
                cc['base_graph'] = {'nodes': [[n, d['fragname']] for n, d in bg.nodes(data=True)],
                                    'edges': [[a, b, d['order']] for a, b, d in bg.edges(data=True)]}
            cg4, aa4 = MC.make_resolver(cc, **kw).resolve_all()
            ok4, desc4 = final_matches(case, aa4, truth)
            if not ok4:
                viol.append(V('c06.constructor_differs', f'{multi} through {ctor} ends in a different molecule: {desc4}'))
    except Exception as err:
        viol.append(V('c06.exception.' + type(err).__name__, f'{multi} raised {type(err).__name__}: {err}'))
    try:
        cgt, aat = MoleculeResolver.from_string(two, **kw).resolve_all()
        ok, desc = final_matches(case, aat, truth)
        if not ok:
            viol.append(V('c06.two_level_vs_truth', f'two-level string {two} does not give the ground truth: {desc}'))
    except Exception as err:
        viol.append(V('c06.two_level_exception', f'{two} raised {type(err).__name__}: {err}'))
    for rec in contracts.take('C02') + contracts.take('C03') + contracts.take('C06'):
        viol.append(V('c06.step_' + rec['clause'], f'{multi} :: {rec["msg"]}'))
    contracts.clear()
    return {'violations': viol, 'nontrivial': case['nlevels'] >= 3, 'sample': multi,
            'cls': (tuple(case['features']), case['nlevels'], case.get('nheavy'), case.get('nfrag'))}
