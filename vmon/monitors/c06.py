"""C06 - layered resolutions compose (metamorphic over hierarchies + driver histories)."""
import random

from ..gen import mol as M
from ..oracles import V
from .. import contracts, util
from . import molcommon as MC

PROPERTY = 'C06'
LEVEL = 'exploration'
RULE = ('unique-label cut molecules (atomistic last level) and cut coarse graphs (coarse last level) whose fragments are grouped '
        'recursively into 1-3 intermediate levels; every inter-group fragment pair with c cut bonds becomes one uniquely '
        'labelled coarse descriptor pair of order c and the group-level edge order is the number of such pairs. Oracle: '
        'resolve_all() of the k-level string == resolve_all() of the two-level string == ground truth; in resolve_iter() the '
        'coarse graph of step i+1 IS the fine graph of step i; the C02/C03 post-state contract holds at every step; repeated '
        'resolve(), resolve_iter() and resolve_all() on three fresh resolvers give identical canonical dumps. '
        'distinct = (feature set, levels, #heavy, #fragments); non-trivial = at least 3 levels.')
ASSUMPTIONS = ['documentation example strings are included verbatim (block copolymer, mPEG two- vs three-level)']
MECHANISMS = [('cgsmiles.resolve', 'MoleculeResolver.resolve'), ('cgsmiles.resolve', 'MoleculeResolver.resolve_iter'),
              ('cgsmiles.resolve', 'MoleculeResolver.resolve_all'), ('cgsmiles.cgsmiles_utils', 'read_fragment_cgsmiles')]
SIZES = {'quick': 2000, 'thorough': 40000}
DOC_CASES = [
    ("{[#B1][#B2][#B1]}.{#B1=[#PEO]|4,#B2=[#PE]|2}.{#PEO=[>]COC[<],#PE=[>]CC[<]}", None),
]


def setup():
    contracts.install()


def cases(seed, tier, shard, nshards):
    rng = random.Random(f'{seed}:C06:{tier}:{shard}')
    made = 0
    while made < SIZES[tier] // nshards:
        c = MC.random_multilevel_case(rng, rng.choice([6, 10, 16]), coarse_last=rng.random() < 0.3)
        if c is None:
            continue
        made += 1
        yield c


def final_matches(case, aa, truth):
    if case.get('coarse_last'):
        return MC.coarse_result_matches(aa, truth), ''
    heavy, problems = M.collapse_h(aa)
    return (not problems and M.same_molecule(heavy, truth)), M.describe(heavy)


def run(case):
    from cgsmiles import MoleculeResolver
    contracts.clear()
    viol = []
    coarse_last = case.get('coarse_last', False)
    truth = MC.coarse_truth(case['truth']) if coarse_last else MC.truth_from_json(case['truth'])
    kw = dict(last_all_atom=not coarse_last)
    multi, two = case['multi_string'], case['two_level']
    try:
        r = MoleculeResolver.from_string(multi, **kw)
        prev_fine = None
        steps = 0
        for cg, aa in r.resolve_iter():
            steps += 1
            if prev_fine is not None and cg is not prev_fine:
                viol.append(V('c06.coarse_is_not_previous_fine', f'{multi}: at step {steps} the coarse graph is not the previous step\'s fine graph'))
            prev_fine = aa
        final = aa
        if steps != case['nlevels']:
            viol.append(V('c06.level_count', f'{multi}: resolve_iter yielded {steps} steps, the string has {case["nlevels"]} fragment levels'))
        ok, desc = final_matches(case, final, truth)
        if not ok:
            viol.append(V('c06.multi_vs_truth', f'{multi} ends in a different molecule than the two-level string {two}: {desc}'))
        # drivers
        d_iter = (util.canonical_dump(cg), util.canonical_dump(final))
        r2 = MoleculeResolver.from_string(multi, **kw)
        for _ in range(case['nlevels']):
            cg2, aa2 = r2.resolve()
        r3 = MoleculeResolver.from_string(multi, **kw)
        cg3, aa3 = r3.resolve_all()
        if (util.canonical_dump(cg2), util.canonical_dump(aa2)) != d_iter:
            viol.append(V('c06.drivers_differ', f'{multi}: repeated resolve() and resolve_iter() disagree'))
        if (util.canonical_dump(cg3), util.canonical_dump(aa3)) != d_iter:
            viol.append(V('c06.drivers_differ', f'{multi}: resolve_all() and resolve_iter() disagree'))
        # the other two constructors on the same hierarchy
        cut = multi.index('}.{')
        for ctor in ('from_graph', 'from_fragment_dicts'):
            cc = dict(base_string=multi[:cut + 1], frag_string=multi[cut + 2:], ctor=ctor)
            if ctor == 'from_graph':
                import cgsmiles
                bg = cgsmiles.read_cgsmiles(cc['base_string'])
                cc['base_graph'] = {'nodes': [[n, d['fragname']] for n, d in bg.nodes(data=True)],
                                    'edges': [[a, b, d['order']] for a, b, d in bg.edges(data=True)]}
            cg4, aa4 = MC.make_resolver(cc, **kw).resolve_all()
            ok4, desc4 = final_matches(case, aa4, truth)
            if not ok4:
                viol.append(V('c06.constructor_differs', f'{multi} through {ctor} ends in a different molecule: {desc4}'))
    except Exception as err:
        viol.append(V('c06.exception.' + type(err).__name__, f'{multi} raised {type(err).__name__}: {err}'))
    try:
        cgt, aat = MoleculeResolver.from_string(two, **kw).resolve_all()
        ok, desc = final_matches(case, aat, truth)
        if not ok:
            viol.append(V('c06.two_level_vs_truth', f'two-level string {two} does not give the ground truth: {desc}'))
    except Exception as err:
        viol.append(V('c06.two_level_exception', f'{two} raised {type(err).__name__}: {err}'))
    for rec in contracts.take('C02') + contracts.take('C03'):
        viol.append(V('c06.step_' + rec['clause'], f'{multi} :: {rec["msg"]}'))
    contracts.clear()
    return {'violations': viol, 'nontrivial': case['nlevels'] >= 3, 'sample': multi,
            'cls': (tuple(case['features']), case['nlevels'], case.get('nheavy'), case.get('nfrag'))}
