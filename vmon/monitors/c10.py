"""C10 - shared atoms: the squash operator merges exactly the two marked atoms (metamorphic + conservation)."""
import random

from ..gen import mol as M
from ..oracles import V
from .. import contracts
from . import molcommon as MC

PROPERTY = 'C10'
LEVEL = 'exploration'
RULE = ('random molecules x partitions in which a random subset of the cut bonds is replaced by sharing one end atom (the atom '
        'is cloned into the neighbouring fragment, clone and original carry a uniquely labelled ! pair): several shared '
        'atoms per fragment, atoms shared 3+ ways, shared aromatic ring atoms, fragments consisting only of a shared atom, '
        'shared atoms with ordinary descriptors, random base-graph spelling, two such molecules in one base graph joined by '
        'order-0 edges only (string and caller-made graph, edge list shuffled); 4 % small E/Z-marked alkenes one of whose double-bond atoms is shared, the slash-marked substituent written in the other fragment (judged on the molecule, not on the stereo class - that is C15). Oracle: overlapping description == disjoint '
        'description == generator ground truth (isomorphism on element, charge, H count, orders); atom count = sum of '
        'fragment atoms - shared pairs + hydrogens; every atom, traced through its mapping entries to the generator atom it '
        'stems from, belongs to exactly the coarse nodes the generator put it in. distinct = (feature set, #heavy, '
        '#fragments, #shared); non-trivial = at least one shared pair.')
ASSUMPTIONS = ['redundant squash pairs between atoms that are already identified are not generated (outside the premise)',
               'template node index = position of the atom in the fragment text (pysmiles numbering)']
MECHANISMS = [('cgsmiles.resolve', 'MoleculeResolver.squash_atoms'), ('cgsmiles.resolve', 'MoleculeResolver.edges_from_bonding_descrpt'),
              ('cgsmiles.pysmiles_utils', 'rebuild_h_atoms')]
FINDING_FEATURES = {}
SIZES = {'quick': 4800, 'thorough': 80000}


def setup():
    contracts.install()


def cases(seed, tier, shard, nshards):
    rng = random.Random(f'{seed}:C10:{tier}:{shard}')
    made = 0
    while made < SIZES[tier] // nshards:
        if rng.random() < 0.04:
            made += 1
            yield stereo_shared_case(rng)
            continue
        if rng.random() < 0.12:
            # sharing on two levels of one hierarchy (a merge on one level must not leak into the next)
            c = None
            for _ in range(40):
                m = MC.random_multilevel_case(rng, rng.choice([6, 10]), coarse_last=False)
                if m is not None and 'squash_at_two_levels' in m['features']:
                    c = m
                    break
            if c is None:
                continue
            made += 1
            yield c
            continue
        if rng.random() < 0.4:
            # label-insensitive convention on inputs whose descriptor kinds alone determine the pairing
            c = MC.random_shared_case(rng, rng.choice([6, 10, 16]), p_share=rng.choice([0.3, 0.6]), label_insensitive=True)
        else:
            c = MC.random_shared_case(rng, rng.choice([3, 6, 10, 16]), p_share=rng.choice([0.3, 0.6, 1.0]))
        if c is None:
            continue
        if rng.random() < 0.18:
            c = two_copies(rng, c)
        made += 1
        yield c


def stereo_shared_case(rng):
    """X/C=C/Y (optionally with tails) in which one double-bond atom is shared: the copy next to the double bond sits in one
    fragment, the copy carrying the slash-marked substituent in the other; either fragment may be listed first"""
    x, y = rng.choice(['F', 'Cl', 'Br', 'C', 'CC', 'OC']), rng.choice(['F', 'Cl', 'Br', 'C', 'CC', 'CO'])
    s1, s2 = rng.choice(['/', '\\']), rng.choice(['/', '\\'])
    third = rng.choice(['', '', '(C)', '(CC)'])
    lab = rng.choice(['', 'a', 'x1'])
    xr = ''.join(reversed([c for c in x])) if x in ('CC',) else {'OC': 'CO'}.get(x, x)
    whole = f'{xr}{s1}C=C{third}{s2}{y}'
    a = f'{xr}{s1}C=C{third}[!{lab}]'
    b = f'[!{lab}]C{s2}{y}'
    first = rng.random() < 0.5
    base = '{[#A][#B]}' if first else '{[#B][#A]}'
    items = [('A', a), ('B', b)]
    if rng.random() < 0.5:
        items.reverse()
    return dict(kind='stereo_shared', string=base + '.{' + ','.join('#%s=%s' % kv for kv in items) + '}', single='{[#M]}.{#M=%s}' % whole,
                features=['slash_mark_next_to_a_shared_atom', 'marked_copy_listed_' + ('second' if first else 'first')], nheavy=4)


def run_stereo_shared(case):
    contracts.clear()
    viol = []
    res = MC.resolve_single(case['string'])
    ref = MC.resolve_single(case['single'])
    if ref['error']:
        contracts.clear()
        return {'violations': [], 'rejected': {'uncut_spelling_rejected': 1}, 'nontrivial': False, 'cls': 'stereo_shared_rejected', 'sample': case['single']}
    if res['error']:
        viol.append(V('c10.shared_exception.' + res['error'].split(':')[0], f"{case['string']} raised {res['error']}; the molecule written in one piece, {case['single']}, resolves"))
    elif res['problems'] or not M.same_molecule(res['heavy'], ref['heavy']):
        viol.append(V('c10.shared_vs_truth', f"{case['string']} -> {M.describe(res['heavy'])} {res['problems']}; written in one piece ({case['single']}) it is {M.describe(ref['heavy'])}"))
    elif len(res['aa']) != len(ref['aa']):
        viol.append(V('c10.atom_count', f"{case['string']}: {len(res['aa'])} atoms, the molecule written in one piece has {len(ref['aa'])}"))
    contracts.clear()
    return {'violations': viol, 'nontrivial': True, 'sample': case['string'], 'cls': ('stereo_shared', tuple(case['features']))}


def _two_copies_sub(rng, sub, zero_pairs, ctor):
    """the description of ONE molecule -> the description of two such molecules in one base graph, the copies joined by
    order-0 edges only ('.' in a string); in a caller-made graph the order-0 edges stand at random places of the edge list,
    preferably between a node of one copy and a neighbour-in-the-molecule of the other (their descriptors are compatible)"""
    out = dict(sub)
    nodes = sub['base_graph']['nodes']
    edges = sub['base_graph']['edges']
    off = max(n for n, _ in nodes) + 1
    n2 = [[n, nm] for n, nm in nodes] + [[n + off, nm] for n, nm in nodes]
    e2 = [[a, b, o] for a, b, o in edges] + [[a + off, b + off, o] for a, b, o in edges]
    for a, b in zero_pairs:
        e2.append([a, b + off, 0])
    rng.shuffle(e2)
    if rng.random() < 0.5:
        rng.shuffle(n2)
    inner = sub['base_string'][1:-1]
    out.update(base_string='{' + inner + '.' + inner + '}', ctor=ctor, base_graph={'nodes': n2, 'edges': e2})
    return out


def two_copies(rng, case):
    sh = case['shared']
    edges = [(a, b) for a, b, _ in sh['base_graph']['edges']]
    keys = [n for n, _ in sh['base_graph']['nodes']]
    zero = []
    for _ in range(rng.randint(1, 3)):
        if edges and rng.random() < 0.7:
            a, b = rng.choice(edges)
            if rng.random() < 0.5:
                a, b = b, a
        else:
            a, b = rng.choice(keys), rng.choice(keys)
        if (a, b) not in zero:
            zero.append((a, b))
    ctor = rng.choice(['from_graph', 'from_graph', 'string'])
    out = dict(case)
    out['shared'] = _two_copies_sub(rng, sh, zero, ctor)
    out['disjoint'] = _two_copies_sub(rng, case['disjoint'], zero, ctor)
    out['copies'] = 2
    out['features'] = sorted(set(case['features']) | {'two_molecules_in_one_base_graph', 'two_molecules_' + ctor})
    return out


def run_hierarchy(case):
    """shared atoms / shared beads on two levels of one hierarchical string: still exactly the marked ones merge"""
    from cgsmiles import MoleculeResolver
    contracts.clear()
    viol = []
    truth = MC.truth_from_json(case['truth'])
    s = case['multi_string']
    try:
        cg, aa = MoleculeResolver.from_string(s).resolve_all()
        heavy, problems = M.collapse_h(aa)
        if problems or not M.same_molecule(heavy, truth):
            viol.append(V('c10.hierarchy_vs_truth', f'{s} (sharing on two levels) -> {M.describe(heavy)} {problems}; the molecule is {M.describe(truth)}'))
    except Exception as err:
        viol.append(V('c10.hierarchy_exception.' + type(err).__name__, f'{s} raised {type(err).__name__}: {err}'))
    contracts.clear()
    return {'violations': viol, 'nontrivial': True, 'sample': s, 'cls': ('hierarchy', tuple(case['features']), case.get('nheavy'))}


def run(case):
    if case.get('kind') == 'multilevel':
        return run_hierarchy(case)
    if case.get('kind') == 'stereo_shared':
        return run_stereo_shared(case)
    contracts.clear()
    viol = []
    truth = MC.truth_from_json(case['truth'])
    copies = case.get('copies', 1)
    if copies == 2:
        import networkx as nx
        truth = nx.disjoint_union(truth, truth)
    sh = dict(case['shared'])
    txt = MC.case_text(sh)
    kw = {} if case.get('legacy', True) else {'legacy': False}
    res = MC.resolve_case(sh, **kw)
    if kw:
        txt += ' (legacy=False)'
    if res['error']:
        viol.append(V('c10.shared_exception.' + res['error'].split(':')[0], f'{txt} raised {res["error"]}'))
    else:
        if res['problems'] or not M.same_molecule(res['heavy'], truth):
            viol.append(V('c10.shared_vs_truth', f'{txt} -> {M.describe(res["heavy"])} {res["problems"]}; the molecule {case["smiles"]!r} is {M.describe(truth)}'))
        aa = res['aa']
        nh = sum(d['nh'] for _, d in truth.nodes(data=True))
        expect_n = copies * (case['natoms_frag'] - case['nshared']) + nh
        if len(aa) != expect_n:
            viol.append(V('c10.atom_count', f'{txt}: {len(aa)} atoms, expected {copies} x ({case["natoms_frag"]} fragment atoms - {case["nshared"]} shared pairs) + {nh} hydrogens = {expect_n}'))
        # membership through mapping
        for n, d in aa.nodes(data=True):
            if d.get('element') == 'H' and not d.get('mapping'):
                continue
            origins, frs = set(), set()
            for ent in d.get('mapping') or []:
                atoms = case['frag_atoms'].get(ent[0])
                if atoms is None or not isinstance(ent[1], int) or ent[1] >= len(atoms):
                    origins.add(('?', ent[0], ent[1]))
                    continue
                origins.add(atoms[ent[1]])
                frs.add(int(ent[0][1:]))
            if len(origins) != 1:
                viol.append(V('c10.merged_different_atoms', f'{txt}: fine atom {n} stems from generator atoms {sorted(origins, key=str)} (mapping {d.get("mapping")})'))
                break
            if copies == 2:
                off_ = len(case['shared']['base_graph']['nodes']) // 2
                if len({int(k) >= off_ for k in (d.get('fragid') or [])}) > 1:
                    viol.append(V('c10.merged_across_molecules', f'{txt}: fine atom {n} belongs to coarse nodes {d.get("fragid")} of two molecules that are joined by order-0 edges only'))
                    break
            o = next(iter(origins))
            want = set(case['membership'].get(str(o), []))
            cg = res['cg']
            own = {int(str(cg.nodes[k].get('fragname'))[1:]) for k in (d.get('fragid') or []) if k in cg}
            if own != want or frs != want or len(own) != len(d.get('fragid') or []):
                viol.append(V('c10.membership', f'{txt}: fine atom {n} (generator atom {o}) belongs to coarse nodes {d.get("fragid")} = fragments {sorted(own)} / mapped from fragments {sorted(frs)}, expected {sorted(want)}'))
                break
        # 'one atom that belongs to BOTH coarse nodes', seen from the coarse side as well: every coarse node named in an
        # atom's membership lists that atom among its fine nodes (also a node ALL of whose atoms survive in earlier nodes)
        if not viol:
            cg = res['cg']
            for n, d in aa.nodes(data=True):
                for k in d.get('fragid') or []:
                    gr = cg.nodes[k].get('graph') if k in cg else None
                    if gr is None or n not in gr:
                        viol.append(V('c10.coarse_node_lacks_its_atom', f'{txt}: fine atom {n} records coarse node {k} ({cg.nodes[k].get("fragname") if k in cg else "?"}), whose fine nodes are {sorted(gr.nodes) if gr is not None else None}'))
                        break
                if viol:
                    break
    dis = MC.resolve_case(dict(case['disjoint']), **kw)
    dtxt = MC.case_text(case['disjoint'])
    if dis['error']:
        viol.append(V('c10.disjoint_exception', f'disjoint description {dtxt} raised {dis["error"]}'))
    elif not res['error'] and not M.same_molecule(dis['heavy'], res['heavy']):
        viol.append(V('c10.shared_vs_disjoint', f'{txt} and the disjoint description {dtxt} resolve to different molecules'))
    contracts.clear()
    return {'violations': viol, 'nontrivial': case['nshared'] > 0, 'sample': txt,
            'cls': (tuple(case['features']), case['nheavy'], case['nfrag'], case['nshared'])}
