"""Sampler workload (C16, C17): random closed configurations, construct-and-sample under an event
log, and the output / log checkers."""
import collections
import random as _random

import networkx as nx

from ..gen import mol as M
from ..gen.mol import VAL
from .. import hooks

LOG = []          # growth events of the current sample() call (appended by the add_fragment hook)
CHOICES = []      # weighted choice events
FAIL = {}         # state of the add_fragment call that raised


def install_hooks():
    def add_fragment_factory(orig):
        def wrapper(self, molecule, open_bonds, fragments, polymer_reactivities, fragment_reactivities):
            hooks.COUNTERS['add_fragment'] += 1
            n0, e0 = molecule.number_of_nodes(), molecule.number_of_edges()
            before = {n: list(molecule.nodes[n].get('bonding') or []) for n in molecule.nodes}
            try:
                res = orig(self, molecule, open_bonds, fragments, polymer_reactivities, fragment_reactivities)
            except Exception as err:
                FAIL.clear()
                FAIL.update(open_bonds={k: list(v) for k, v in open_bonds.items()}, polymer=dict(polymer_reactivities or {}),
                            error=f'{type(err).__name__}: {err}', fragments=sorted(fragments))
                raise
            mol2, fragname = res
            new_nodes = [n for n in mol2.nodes if n not in before]
            new_edges = [(a, b, d) for a, b, d in mol2.edges(data=True) if (a in before) != (b in before)]
            LOG.append(dict(fragname=fragname, n_new_nodes=len(new_nodes), n_new_edges=mol2.number_of_edges() - e0,
                            cross=[(a, b, d.get('bonding'), d.get('order')) for a, b, d in new_edges],
                            same_object=mol2 is molecule,
                            changed_old={n: (before[n], list(mol2.nodes[n].get('bonding') or [])) for n in before
                                         if before[n] != list(mol2.nodes[n].get('bonding') or [])}))
            return res
        return wrapper
    hooks.wrap_attr('cgsmiles.sample', 'MoleculeSampler.add_fragment', add_fragment_factory)

    def select_factory(orig):
        def wrapper(bonds, probabilities=None):
            hooks.COUNTERS['_select_bonding_operator'] += 1
            res = orig(bonds, probabilities)
            CHOICES.append(dict(offered=list(bonds), table=dict(probabilities) if probabilities else None, chosen=res))
            return res
        return wrapper
    hooks.wrap_attr('cgsmiles.sample', '_select_bonding_operator', select_factory)


# ---------------------------------------------------------------------------------------------
# configurations

def norm(d):
    return d if d[-1].isdigit() else d + '1'


def random_unit(rng, descs, all_atom):
    """a fragment text carrying the given descriptors [(kind,label,order)] on atoms with enough free valence"""
    if not all_atom:
        names = ['A', 'B', 'C', 'D']
        n = rng.randint(1, 3)
        g = nx.Graph()
        for i in range(n):
            g.add_node(i, name=rng.choice(names))
            if i:
                g.add_edge(rng.randrange(i), i, order=1)
        desc = {}
        for dsc in descs:
            desc.setdefault(rng.randrange(n), []).append(dsc)
        text, pre = M.render_coarse_fragment(rng, g, list(g.nodes), desc)
        return text, n, None
    if len(descs) == 1 and descs[0][2] == 1 and rng.random() < 0.12:
        # an explicit hydrogen as a fragment of its own (end cap): [$][H]
        return M.fmt_desc(*descs[0]) + '[H]', 1, M.MASS['H']
    if rng.random() < 0.15:
        # hand-written units with a lower-case aromatic ring (benzene, pyrrole-type [nH], imidazole); descriptors sit on the
        # aliphatic carbons; the stand-alone mass is known from the formula
        tmpl, slots, mass = rng.choice(FIXED_UNITS)
        room = list(slots)
        put = [[] for _ in slots]
        ok = True
        for dsc in descs:
            cands = [k for k in range(len(slots)) if room[k] >= dsc[2]]
            if not cands:
                ok = False
                break
            k = rng.choice(cands)
            room[k] -= dsc[2]
            put[k].append(M.fmt_desc(*dsc))
        if ok:
            return tmpl.format(*[''.join(x) for x in put]), tmpl.count('c') + tmpl.count('C') + tmpl.count('n'), mass
    for _ in range(100):
        g = M.gen_molecule(rng, max_heavy=rng.randint(1, 5), p_arom=0.0, p_ring=0.15, charged=False, triple=False)
        budget = {n: g.nodes[n]['hcount'] for n in g}
        desc = {}
        ok = True
        for dsc in descs:
            cands = [n for n in g if budget[n] >= dsc[2]]
            if not cands:
                ok = False
                break
            a = rng.choice(cands)
            budget[a] -= dsc[2]
            desc.setdefault(a, []).append(dsc)
        if ok:
            r = M.render_fragment(rng, g, list(g.nodes), desc, opts={'explicit_single': 0.0})
            if rng.random() < 0.2:
                # bracket atoms: bare ([O], no hydrogen count written), with their hydrogen count, or with an annotation
                # (weight, free key); the hydrogens of the product come from its connectivity either way
                toks = list(r['tokens'])
                for k, t in enumerate(toks):
                    if t[0] == 'atom' and not t[1].startswith('[') and rng.random() < 0.5:
                        d = g.nodes[t[2]]
                        txt = M.atom_text(d, d['hcount'] if rng.random() < 0.5 else 0, bracket=True)
                        ann = rng.choice(['', '', ';0.5', ';w=2', ';note=a', ';w=0.25;tag=q'])
                        toks[k] = ('atom', txt[:-1] + ann + ']', t[2])
                r = dict(r, text=M.tokens_text(toks))
            # stand-alone mass from the generator's own atoms and hydrogen counts (unused descriptors become H)
            mass = sum(M.MASS[g.nodes[n]['element']] + g.nodes[n]['hcount'] * M.MASS['H'] for n in g)
            return r['text'], len(g), mass
    return None, 0, None


# (template, hydrogens available on each descriptor slot, mass of the unit as a stand-alone molecule)
FIXED_UNITS = [('C{0}c1ccccc1', (3,), 7 * 12.011 + 8 * 1.008),                         # toluene
               ('C{0}c1cc[nH]c1C{1}', (3, 3), 6 * 12.011 + 9 * 1.008 + 14.007),        # 3,4-dimethylpyrrole
               ('C{0}C{1}c1c[nH]cn1', (3, 2), 5 * 12.011 + 8 * 1.008 + 2 * 14.007),    # 4-ethylimidazole
               ('C{0}C{1}c1ccncc1', (3, 2), 7 * 12.011 + 9 * 1.008 + 14.007)]           # 4-ethylpyridine


def random_config(rng, closed=True):
    all_atom = rng.random() < 0.6
    nfrag = rng.randint(1, 4)
    # descriptor families
    fams = []
    for _ in range(rng.randint(1, 3)):
        o = rng.choice([1, 1, 1, 2]) if not fams else rng.choice([1, 1, 1, 2, 0])      # (order 0: '.[$]', a counter-ion style attachment)
        if rng.random() < 0.5:
            lab = rng.choice(['', '', 'A', 'B', 'A2', 'b1'])
            fams.append([('$', lab, o), ('$', rng.choice(['', lab, 'C', 'C6']), o)])
        else:
            lab = rng.choice(['', 'A', 'x', 'E1'])
            fams.append([('>', lab, o), ('<', lab, o)])
    frag_descs = [[] for _ in range(nfrag)]
    for fam in fams:
        # both members of a family are placed (closed); the first family forms a self-propagating unit
        if fam is fams[0]:
            frag_descs[0] += fam
        else:
            for d in fam:
                frag_descs[rng.randrange(nfrag)].append(d)
        for _ in range(rng.randint(0, 2)):
            frag_descs[rng.randrange(nfrag)].append(rng.choice(fam))
    frags = {}
    for i, ds in enumerate(frag_descs):
        if not ds:
            ds = [rng.choice(fams[0])]
        ds = ds[:4]
        frag_descs[i] = ds
    if not closed:
        # one descriptor more whose complement exists with ANOTHER bond order only (>2 where every < has order 1): growth
        # from it is a dead end, never a bond
        d = rng.choice(rng.choice(fams))
        if d[2] in (1, 2):
            frag_descs[rng.randrange(nfrag)].append((d[0], d[1], 3 - d[2]))
    present = {norm(k + l + str(o)) for ds in frag_descs for (k, l, o) in ds}
    for d in (present if closed else ()):
        if d[0] in '<>' and ({'<': '>', '>': '<'}[d[0]] + d[1:]) not in present:
            return None
        if d[0] == '$' and sum(1 for ds in frag_descs for (k, l, o) in ds if k == '$' and str(o) == d[-1]) < 2:
            return None
    unit_masses = {}
    for i, ds in enumerate(frag_descs):
        text, n, mass_ = random_unit(rng, ds, all_atom)
        if text is None:
            return None
        frags['U%d' % i] = text
        unit_masses['U%d' % i] = mass_
    all_d = sorted({norm(k + l + str(o)) for ds in frag_descs for (k, l, o) in ds})
    # terminal descriptors: a dedicated terminal fragment
    terminal = []
    if rng.random() < 0.4:
        fam = fams[0]
        o = fam[0][2]
        tkind = '$' if fam[0][0] == '$' else ('<' if rng.random() < 0.5 else '>')
        tlab = 'T' if tkind == '$' else fam[0][1]
        tdesc = (tkind, tlab, o)
        text, n, mass_ = random_unit(rng, [tdesc], all_atom)
        if text is None:
            return None
        frags['TER'] = text
        unit_masses['TER'] = mass_
        terminal = [tkind + tlab + (str(o) if (o != 1 or tlab[-1:].isdigit()) else '')]
        all_d = sorted(set(all_d) | {norm(tkind + tlab + str(o))})
    # reactivities
    poly = {}
    mode = rng.choice(['none', 'uniform', 'zeros', 'zeros'])
    if mode != 'none':
        for d in all_d:
            short_ok = d.endswith('1') and not d[:-1][-1:].isdigit()
            poly[d[:-1] if (short_ok and rng.random() < 0.5) else d] = 1.0 if mode == 'uniform' else rng.choice([0.0, 0.2, 1.0])
        # keep the self-propagating family alive
        for (k, l, o) in fams[0]:
            key = norm(k + l + str(o))
            short = key[:-1]
            if key in poly:
                poly[key] = max(poly[key], 0.5)
            elif short in poly:
                poly[short] = max(poly[short], 0.5)
            else:
                poly[key] = 0.5
    # a descriptor missing from the table has reactivity 0
    if mode == 'zeros' and rng.random() < 0.5:
        live = {norm(k + l + str(o)) for (k, l, o) in fams[0]}
        for key in list(poly):
            if norm(key) not in live and rng.random() < 0.5:
                del poly[key]
        feats_missing = True
    fragr = {}
    if rng.random() < 0.4:
        for d in all_d:
            if d[0] == '$' and rng.random() < 0.7:
                partners = [x for x in all_d if x[0] == '$' and x[-1] == d[-1]]
                tbl = {p: rng.choice([0.0, 0.5, 1.0]) for p in partners}
                if not any(v > 0 for v in tbl.values()):
                    tbl[rng.choice(partners)] = 1.0
                for p in [p for p, v in tbl.items() if v == 0.0]:
                    if rng.random() < 0.5:
                        del tbl[p]     # missing key = conditional reactivity 0
                fragr[d] = tbl
        # tables may also name descriptors that are NOT complementary to the site (other order, other
        # kind, other label); they are not candidates, whatever weight they carry
        for d in all_d:
            if d[0] in '<>' and rng.random() < 0.4:
                comp = {'<': '>', '>': '<'}[d[0]] + d[1:]
                fragr[d] = {comp: rng.choice([0.5, 1.0])}
        for d, tbl in fragr.items():
            others = [x for x in all_d if x not in tbl and not complementary(d, x)]
            for x in rng.sample(others, min(len(others), rng.choice([0, 1, 2]))):
                tbl[x] = rng.choice([0.5, 1.0, 5.0])
    masses = None
    if not all_atom or rng.random() < 0.3:
        masses = {name: float(rng.choice([10, 44, 72, 104.5])) for name in frags}
        if rng.random() < 0.3:
            same = float(rng.choice([36, 72, 165]))
            masses = {name: same for name in frags}
    cfg = dict(frag_string='{' + ','.join('#%s=%s' % kv for kv in frags.items()) + '}', polymer_reactivities=poly,
               fragment_reactivities=fragr, terminal_bonds=terminal, fragment_masses=masses, all_atom=all_atom,
               seed=rng.choice([0, 1, 2 ** 40 + 7]) if rng.random() < 0.08 else rng.randrange(10 ** 6), start_fragment=rng.choice([None, None, 'U0']),
               target_units=rng.choice([1, 2, 5, 12, 40]))
    feats = {'all_atom' if all_atom else 'coarse', 'poly_' + mode, 'nfrag_%d' % len(frags)}
    cfg['unit_masses'] = unit_masses
    if any('[nH]' in t for t in frags.values()):
        feats.add('unit_with_aromatic_nH')
    if any('c1' in t for t in frags.values()):
        feats.add('unit_with_aromatic_ring')
    if any(t.endswith('[H]') and t.count('[') == 2 for t in frags.values()):
        feats.add('single_hydrogen_fragment')
    if rng.random() < 0.3:
        cfg['via'] = 'dict'
        feats.add('constructor_with_shared_fragment_dict')
    if masses and rng.random() < 0.5:
        # given masses are multiples of 0.5, so sums are exact floats and a target that is itself such a sum can be
        # hit EXACTLY by the running weight: the documented loop stops there
        vals = sorted(masses.values())
        cfg['exact_target'] = float(sum(rng.choice(vals) for _ in range(cfg['target_units']))) if rng.random() < 0.9 else 0.0
        feats.add('exact_target')
        if cfg['exact_target'] > 0 and rng.random() < 0.3:
            # ... or missed by a hair: the target lies 1/1024 ABOVE a reachable sum (both exact floats), so the chain that
            # stops at that sum is still below its target and one more fragment is due
            cfg['exact_target'] += 1.0 / 1024
            feats.add('target_just_above_a_reachable_sum')
    if terminal:
        feats.add('terminals')
        if rng.random() < 0.3:
            # the terminal descriptors handed over as a tuple or a set rather than a list (any collection of strings)
            cfg['terminal_container'] = rng.choice(['tuple', 'frozenset'])
            feats.add('terminals_not_a_list')
    if fragr:
        feats.add('conditional_reactivities')
    if masses:
        feats.add('masses_given')
    if any(o == 2 for ds in frag_descs for (_, _, o) in ds):
        feats.add('order2_descriptor')
    if any(k in '<>' for ds in frag_descs for (k, _, _) in ds):
        feats.add('directed_descriptors')
    if not closed:
        feats.add('descriptor_without_equal_order_partner')
        cfg['unclosed'] = True
    cfg['features'] = sorted(feats)
    return cfg


DICTS = {}      # fragment string -> fragment dictionary read once and shared by every sampler built from it


def make_sampler(cfg):
    from cgsmiles import MoleculeSampler
    container = {'tuple': tuple, 'frozenset': frozenset}.get(cfg.get('terminal_container'), list)
    kw = dict(polymer_reactivities=cfg['polymer_reactivities'], fragment_reactivities=cfg['fragment_reactivities'],
              terminal_bonds=container(cfg['terminal_bonds']), all_atom=cfg['all_atom'], seed=cfg['seed'])
    if cfg['fragment_masses']:
        kw['fragment_masses'] = dict(cfg['fragment_masses'])
    if cfg.get('via') == 'dict':
        # the constructor itself, with a fragment dictionary the caller keeps (and hands to the next sampler as well)
        lib = DICTS.get(cfg['frag_string'])
        if lib is None:
            import cgsmiles
            lib = DICTS.setdefault(cfg['frag_string'], cgsmiles.read_fragments(cfg['frag_string'], all_atom=cfg['all_atom']))
            if len(DICTS) > 50:
                DICTS.pop(next(iter(DICTS)))
        poly = kw.pop('polymer_reactivities')
        if cfg['seed'] % 3 == 0:
            # the caller's fragment graphs need not be keyed 0..k-1 (a subgraph copy, atoms numbered as in a file): the same
            # graphs under increasing keys with gaps
            import networkx as nx
            lib = {name: nx.relabel_nodes(t, {k: 2 * k + 3 for k in t.nodes}, copy=True) for name, t in lib.items()}
        if cfg['seed'] % 5 == 1 and len(lib) >= 2:
            # the keys of a caller's library need not repeat the 'fragname' attribute its fragment graphs carry (fragments
            # read from several strings, renamed entries): the same graphs under each other's names.  Masses, reactivities
            # and the start fragment go by KEY.
            names = sorted(lib)
            lib = {names[(i + 1) % len(names)]: lib[names[i]] for i in range(len(names))}
        return MoleculeSampler(lib, poly, **kw)
    return MoleculeSampler.from_fragment_string(cfg['frag_string'], **kw)


def target_of(cfg, sampler):
    masses = sampler.fragment_masses
    if cfg.get('exact_target') is not None:
        return cfg['exact_target']
    return (cfg['target_units'] - 0.37) * (sum(masses.values()) / len(masses))


def construct_and_sample(cfg):
    s = make_sampler(cfg)
    return s.sample(target_of(cfg, s), start_fragment=cfg['start_fragment'])


# ---------------------------------------------------------------------------------------------
# independent mass model

def standalone_mass(template):
    """mass of a fragment completed with hydrogens as a stand-alone molecule (descriptors ignored)"""
    total = 0.0
    for n, d in template.nodes(data=True):
        el = d.get('element')
        total += M.MASS.get(el, float('nan'))
        if el == 'H':
            continue
        hv = sum(e.get('order', 1) for _, _, e in template.edges(n, data=True))
        vals = VAL.get((el, d.get('charge', 0)))
        fit = [v for v in (vals or []) if v >= hv]
        if fit:
            total += (fit[0] - hv) * M.MASS['H']
    return total


# ---------------------------------------------------------------------------------------------
# output checks

def blocks_of(mol):
    blocks = collections.defaultdict(list)
    for n in sorted(mol.nodes):
        fid = mol.nodes[n].get('fragid')
        blocks[fid[0] if isinstance(fid, list) and fid else fid].append(n)
    return blocks


def complementary(site, partner):
    if site[0] == '$':
        return partner[0] == '$' and site[-1] == partner[-1]
    if site[0] in '<>':
        return partner[0] == {'<': '>', '>': '<'}[site[0]] and site[1:] == partner[1:]
    return site == partner


def order_ok(t, f, both_arom):
    return t == f or (f == 1.5 and both_arom) or (t == 1.5 and f in (1, 2) and not both_arom)
