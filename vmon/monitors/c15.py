"""C15 - stereo information survives fragmentation and renumbering."""
import itertools
import random

import networkx as nx

from ..gen import mol as M
from ..gen import stereo as S
from ..gen import grammar as G
from ..oracles import V
from .. import contracts
from . import molcommon as MC

PROPERTY = 'C15'
LEVEL = 'exploration'
RULE = ('tree-shaped molecules with 1-3 stereo double bonds (geometry chosen by the generator; slash marks written from it by the '
        'OpenSMILES rule for the written order inside each fragment) and 0-2 labelled stereocentres; random renderings; cut at '
        'the stereo double bond and/or at single bonds that carry no slash mark; every permutation (<= 6) of the base-graph '
        'order. Oracle: every atom of the result is traced through its mapping entry to the generator atom; the set of '
        '(substituent, atom, atom, substituent, cis|trans) references and the set of (atom, R|S) labels must equal the '
        'generator\'s, for the uncut molecule and for every cut/permutation; every stored reference must be a path '
        'substituent-atom=atom-substituent of the result (post-state contract, all workloads). Polymer-style chains of stereo '
        'units joined by order-2 descriptors whose fragment names repeat with others in between (A B A): same annotations as '
        'the chain in which every coarse node has a name of its own. distinct = (feature set, '
        '#double bonds, #fragments, permutation class); non-trivial = at least one cut.')
ASSUMPTIONS = ['a slash mark and both atoms next to it stay in one fragment (conservative reading of the quantifier)',
               'molecules with a stereo double bond inside a ring (half of the cases) are rendered so that the later-written double-bond atom precedes its own substituent; the other spellings (F/C=2CCCCCC\\C=2) are read by pysmiles itself differently from OpenSMILES, also for an uncut molecule, and have no reference',
               'marked atoms of different double bonds are neither shared nor adjacent, marked substituents carry no double bond',
               'expected geometry = OpenSMILES up/down rule applied to the written order within each fragment text (permutation '
               'invariant, as the documentation states)']
MECHANISMS = [('cgsmiles.pysmiles_utils', 'annotate_ez_isomers_cgsmiles'), ('cgsmiles.graph_utils', 'sort_nodes_by_attr'),
              ('cgsmiles.read_fragments', 'strip_bonding_descriptors'), ('cgsmiles.graph_utils', 'merge_graphs')]
FINDING_FEATURES = {'stereo.cut_double_bond_needs_canonical_written_order': ('cut_db_later_fragment_writes_substituent_first', 'db_cut_under_reordered_insertion'),
                    'stereo.shared_marked_substituent_class_depends_on_listing': 'marked_substituent_shared_between_fragments',
                    'stereo.cut_marked_substituent_of_first_atom_depends_on_listing': 'cut_substituent_of_the_first_written_double_bond_atom'}
SIZES = {'quick': 4500, 'thorough': 60000}


def setup():
    contracts.install()


def fragment_text(rng, g, nodes, desc, stereo, chiral):
    r = M.render_fragment(rng, g, nodes, desc, opts={'explicit_single': 0.0, 'leading': rng.random() < 0.3})
    idx = {n: i for i, n in enumerate(r['atoms'])}
    local = [s for s in stereo]
    toks = list(r['tokens'])
    return r, idx, toks


def finish_text(tokens, idx, slashes, chiral, g):
    """insert slash tokens before the later-written atom of each marked pair; add chirality annotations"""
    out = []
    child_tok = {}
    for pair, tok in slashes.items():
        a, b = tuple(pair)
        if a in idx and b in idx:
            child = a if idx[a] > idx[b] else b
            child_tok[child] = tok
    for t in tokens:
        if t[0] == 'atom':
            n = t[2]
            if n in child_tok:
                out.append(('bond', child_tok[n]))
            txt = t[1]
            if n in chiral:
                d = g.nodes[n]
                b = txt if txt.startswith('[') else M.atom_text(d, d['hcount'] if (n * 7 + len(txt)) % 2 else 0, bracket=True)
                txt = b[:-1] + ';x=' + chiral[n] + ']'
            out.append(('atom', txt, n))
        else:
            out.append(t)
    return ''.join('(' if t[0] == 'open' else ')' if t[0] == 'close' else t[1] for t in out)


def later_anchor_after_its_substituent(r, stereo):
    """True if, in this rendering, some stereo double bond has both atoms in the text and the one written LATER comes
    after its own marked substituent (possible only around a ring, e.g. F/C=2CCCCCC\\C=2).  pysmiles itself reads such
    spellings differently from OpenSMILES, so they are outside the domain of the comparison."""
    idx = {n: i for i, n in enumerate(r['atoms'])}
    for s in stereo:
        if s['a1'] in idx and s['a2'] in idx:
            (a, l) = (s['a2'], s['l2']) if idx[s['a2']] > idx[s['a1']] else (s['a1'], s['l1'])
            if l in idx and idx[l] < idx[a]:
                return True
    return False


def marked_pair_is_ring_closure(r, slash_pairs):
    """True if the rendering writes a slash-marked bond as a ring closure (the slash could then not be written in
    front of the later atom)"""
    by_number = {}
    for t in r['tokens']:
        if t[0] == 'ring':
            num = ''.join(ch for ch in t[1] if ch.isdigit())
            by_number.setdefault(num, []).append(t[2])
    return any(len(v) == 2 and frozenset(v) in slash_pairs for v in by_number.values()) or any(len(v) > 2 for v in by_number.values())


def make_case(rng):
    res = None
    many = rng.random() < 0.12       # cut (nearly) everywhere: more than ten fragments, two-digit coarse keys
    tailed = not many and rng.random() < 0.22     # a small stereo unit on a long saturated tail (see gen_stereo_molecule)
    for _ in range(50):
        if tailed:
            res = S.gen_stereo_molecule(rng, n_db=rng.choice([1, 1, 2]), n_chiral=0, max_extra=rng.choice([0, 1, 2]), p_ring=0.0, p_tail=1.0)
        else:
            res = S.gen_stereo_molecule(rng, p_ring=0.5, p_unsat=0.2, p_hlig=rng.choice([0.0, 0.0, 0.3]), **(dict(n_db=rng.choice([2, 3]), max_extra=14) if many else {}))
        if res is not None:
            break
    if res is None:
        return None
    g, stereo, chiral = res
    cyclic = g.number_of_edges() >= len(g)
    bridges = {frozenset(e) for e in nx.bridges(g)} if cyclic else None
    slash_pairs = {frozenset((s[l], s[a])) for s in stereo for l, a in (('l1', 'a1'), ('l2', 'a2'))}
    db = {frozenset((s['a1'], s['a2'])) for s in stereo}
    allowed = [frozenset(e) for e in g.edges if frozenset(e) not in slash_pairs and (g.edges[e]['order'] == 1 or frozenset(e) in db)
               and (bridges is None or frozenset(e) in bridges)]
    rng.shuffle(allowed)
    mode = rng.choice(['db_only', 'single_only', 'both'])
    cut_edges = []
    for e in allowed:
        if many:
            if rng.random() < 0.9:
                cut_edges.append(e)
            continue
        if (mode == 'db_only' and e not in db) or (mode == 'single_only' and e in db):
            continue
        if rng.random() < 0.5 and len(cut_edges) < 4:
            cut_edges.append(e)
    tail = g.graph.get('tail_bond')
    if tail and frozenset(tail) in set(allowed) and frozenset(tail) not in cut_edges and rng.random() < 0.85:
        cut_edges.append(frozenset(tail))       # the long tail as a fragment of its own
    if chiral and rng.random() < 0.35:
        # isolate a stereocentre: every bond around it is cut, the centre becomes a fragment of its own
        c = rng.choice(sorted(chiral))
        for nb in g[c]:
            e = frozenset((c, nb))
            if e not in cut_edges and e in set(allowed):
                cut_edges.append(e)
    h = g.copy()
    h.remove_edges_from([tuple(e) for e in cut_edges])
    comps = list(nx.connected_components(h))
    part = {n: i for i, c in enumerate(comps) for n in c}
    labels = M.label_pool(rng)
    desc, cutcount = {}, {}
    used_labels, p_reuse = {}, rng.choice([0.0, 0.0, 0.6])
    for e in cut_edges:
        a, b = tuple(e)
        o = int(g.edges[a, b]['order'])
        lab = M.next_label(rng, labels, used_labels, o, p_reuse)
        kind = rng.choice(['$', '><'])
        ka, kb = ('$', '$') if kind == '$' else rng.choice([('>', '<'), ('<', '>')])
        desc.setdefault(a, []).append((ka, lab, o))
        desc.setdefault(b, []).append((kb, lab, o))
        key = frozenset((part[a], part[b]))
        cutcount[key] = cutcount.get(key, 0) + 1
    # a cut next to a marked substituent may also be written with the shared-atom operator: the substituent atom is part
    # of both fragments ([!x] on either copy), its slash mark stays with the copy that sits next to the double bond
    gr, origin = g, {}
    if rng.random() < 0.3:
        gr = g.copy()
        for s_ in stereo:
            for l_, a_ in (('l1', 'a1'), ('l2', 'a2')):
                lig, anc = s_[l_], s_[a_]
                if part[lig] != part[anc] or lig in chiral or lig in origin.values() or gr.nodes[lig]['charge'] != 0 or rng.random() < 0.4:
                    continue
                for p_ in list(g[lig]):
                    e = frozenset((p_, lig))
                    if e not in cut_edges or g.edges[p_, lig]['order'] != 1 or p_ in chiral or part[p_] == part[lig]:
                        continue
                    mine = [x for x in desc.get(p_, []) if any(x[1] == y[1] for y in desc.get(lig, []))]
                    if len(mine) != 1:
                        continue
                    lab = mine[0][1]
                    c_ = max(gr.nodes) + 1
                    gr.add_node(c_, **dict(g.nodes[lig]))
                    gr.add_edge(p_, c_, order=1)
                    part[c_] = part[p_]
                    comps[part[p_]] = set(comps[part[p_]]) | {c_}
                    origin[c_] = lig
                    desc[p_] = [x for x in desc[p_] if x[1] != lab]
                    if not desc[p_]:
                        del desc[p_]
                    desc[c_] = [('!', lab, 1)]
                    desc[lig] = [('!', lab, 1) if x[1] == lab else x for x in desc[lig]]
                    break
    # render fragments, then write slashes from the geometry and the written order
    bracket_p = rng.choice([0.0, 0.0, 0.4])      # bracket atoms ([CH3], [CH]) also directly behind a slash
    frags, frag_atoms = {}, {}
    renders = {}
    order_index = {}
    for i, comp in enumerate(comps):
        for _try in range(30):
            r = M.render_fragment(rng, gr, sorted(comp), desc, opts={'explicit_single': 0.0, 'leading': rng.random() < 0.3, 'bracket_p': bracket_p, 'desc_in_parens': rng.choice([0.0, 0.3]), 'desc_after_branch': rng.choice([0.0, 0.5])})
            if not cyclic or not (marked_pair_is_ring_closure(r, slash_pairs) or later_anchor_after_its_substituent(r, stereo)):
                break
        else:
            return None
        renders[i] = r
        for k, n in enumerate(r['atoms']):
            order_index[n] = k
    slashes = S.slash_tokens(stereo, order_index, rng)
    for i, r in renders.items():
        idx = {n: k for k, n in enumerate(r['atoms'])}
        frags['F%d' % i] = finish_text(r['tokens'], idx, slashes, chiral, gr)
        frag_atoms['F%d' % i] = [origin.get(n, n) for n in r['atoms']]       # a shared copy stands for the atom it copies
    # uncut reference
    for _try in range(30):
        r0 = M.render_fragment(rng, g, sorted(g.nodes), {}, opts={'explicit_single': 0.0, 'bracket_p': bracket_p})
        if not cyclic or not (marked_pair_is_ring_closure(r0, slash_pairs) or later_anchor_after_its_substituent(r0, stereo)):
            break
    else:
        return None
    oi0 = {n: k for k, n in enumerate(r0['atoms'])}
    sl0 = S.slash_tokens(stereo, oi0, rng)
    single = finish_text(r0['tokens'], oi0, sl0, chiral, g)
    base = nx.Graph()
    for i in range(len(comps)):
        base.add_node(i, fragname='F%d' % i)
    for key, v in cutcount.items():
        a, b = tuple(key)
        base.add_edge(a, b, order=v)
    perms = list(itertools.permutations(range(len(comps)))) if len(comps) <= 3 else [tuple(rng.sample(range(len(comps)), len(comps))) for _ in range(6)]
    rng.shuffle(perms)
    perms = perms[:6]
    if tail and len(comps) >= 2 and part[tail[1]] != part[tail[0]]:
        # one listing with the long tail FIRST: whatever follows it starts at node index 25 ... 127
        tp = part[tail[1]]
        rest_ = [i for i in range(len(comps)) if i != tp]
        rng.shuffle(rest_)
        perms[0] = tuple([tp] + rest_)
    feats = set()
    expect_ez = set()
    for s in stereo:
        expect_ez.add((s['l1'], s['a1'], s['a2'], s['l2'], s['kind']))
        expect_ez.add((s['l2'], s['a2'], s['a1'], s['l1'], s['kind']))
        if frozenset((s['a1'], s['a2'])) in cut_edges:
            feats.add('cut_at_stereo_double_bond')
    if any(e not in db for e in cut_edges):
        feats.add('cut_at_unmarked_single_bond')
    if chiral:
        feats.add('chiral_labels')
        if any(len(c_) == 1 and next(iter(c_)) in chiral for c_ in comps):
            feats.add('stereocentre_is_a_fragment_of_its_own')
        if any(any(frozenset((c, nb)) in cut_edges for nb in g[c]) for c in chiral):
            feats.add('cut_next_to_stereocentre')
    feats.add('double_bonds_%d' % len(stereo))
    if len(comps) >= 11:
        feats.add('eleven_or_more_fragments')
    if cyclic:
        feats.add('stereo_double_bond_in_ring')
    if origin:
        feats.add('marked_substituent_shared_between_fragments')
    if tail:
        feats.add('long_alkyl_tail_fragment')
    if any(g.nodes[s_['l2']]['element'] == 'H' for s_ in stereo):
        feats.add('written_hydrogen_as_marked_substituent')
    if bracket_p:
        feats.add('bracket_atoms')
    items = list(frags.items())
    rng.shuffle(items)
    return dict(g_edges=[[a, b, d['order']] for a, b, d in g.edges(data=True)], frag_string='{' + ','.join('#%s=%s' % kv for kv in items) + '}',
                base_nodes=list(range(len(comps))), base_edges=[[a, b, d['order']] for a, b, d in base.edges(data=True)],
                perms=[list(p) for p in perms], frag_atoms=frag_atoms, single='{[#M]}.{#M=%s}' % single, single_atoms=r0['atoms'],
                expect_ez=sorted(expect_ez), expect_chiral=sorted(chiral.items()), features=sorted(feats),
                stereo=stereo, part={str(k): v for k, v in part.items()}, ndb=len(stereo), nfrag=len(comps), ncuts=len(cut_edges),
                order_index={str(k): v for k, v in order_index.items()},
                shared=[dict(clone=c_, lig=l_, clone_part=part[c_], lig_part=part[l_]) for c_, l_ in origin.items()])


CAPS = ['[$]=C/F', '[$]=C\\F', 'F/C=[$]', 'F\\C=[$]', '[$]=C(C)/Cl', 'C(\\F)=[$]', 'C(/Cl)(C)=[$]', '[$]=C(/C)CC', 'CC(/F)=[$]']
MIDS = ['[$]=C(C)/C=[$]', '[$]=C(C)\\C=[$]', '[$]=C/C=C/C=[$]', '[$]=C(\\C)C=[$]', '[$]=C(C)/C(C)=[$]', 'C(=[$])(/C)C(\\F)=[$]', '[$]=C/CC/C=[$]']


def repeated_units_case(rng):
    """polymer-style chains whose fragment NAMES repeat with other fragments in between (A B A, A B C B A); every bond
    between units is a stereo double bond made by order-2 descriptors.  Metamorphic partner: the same chain with every
    coarse node under a name of its own (same definitions)"""
    caps = rng.sample(CAPS, 2)
    mids = rng.sample(MIDS, 2)
    lib = {'A': caps[0], 'E': caps[1], 'B': mids[0], 'D': mids[1]}
    n_mid = rng.randint(1, 4)
    chain = [rng.choice('AE')] + [rng.choice('BD') for _ in range(n_mid)] + [rng.choice('AE')]
    if len(set(chain)) == len(chain):
        chain[-1] = chain[0]
    used = sorted(set(chain))
    items = ['#%s=%s' % (k, lib[k]) for k in used]
    rng.shuffle(items)
    shared = '{' + ''.join('[#%s]' % k for k in chain) + '}.{' + ','.join(items) + '}'
    own = ['%s%d' % (k, i) for i, k in enumerate(chain)]
    items2 = ['#%s=%s' % (o, lib[k]) for o, k in zip(own, chain)]
    rng.shuffle(items2)
    distinct = '{' + ''.join('[#%s]' % o for o in own) + '}.{' + ','.join(items2) + '}'
    return dict(kind='repeated_units', shared=shared, distinct=distinct, nfrag=len(chain),
                features=['fragment_name_repeats_with_others_in_between', 'cut_at_stereo_double_bond_polymer_style', 'units_%d' % len(chain)])


def run_repeated(case):
    from cgsmiles import MoleculeResolver
    contracts.clear()
    viol = []
    out = {}
    for tag in ('shared', 'distinct'):
        try:
            cg, aa = MoleculeResolver.from_string(case[tag]).resolve()
            out[tag] = (sorted((n, sorted(v)) for n, v in aa.nodes(data='ez_isomer') if v),
                        sorted((n, d.get('element')) for n, d in aa.nodes(data=True)))
        except ValueError as err:
            out[tag] = ('ValueError', str(err)[:60])      # conflicting / dangling marks in this combination of units
        except Exception as err:
            viol.append(V('c15.cut_exception.' + type(err).__name__, f'{case[tag]} raised {type(err).__name__}: {err}'))
            out[tag] = None
    if out['shared'] is not None and out['distinct'] is not None and out['shared'] != out['distinct']:
        viol.append(V('c15.depends_on_fragment_name_sharing', f'{case["shared"]} gives {out["shared"][0]}, but with a name of its own for every coarse node '
                      f'(same definitions, same order) {case["distinct"]} gives {out["distinct"][0]}'))
    for rec in contracts.take('C15'):
        viol.append(V(rec['clause'], f'{case["shared"]} :: {rec["msg"]}'))
    contracts.clear()
    return {'violations': viol, 'nontrivial': out.get('shared') not in (None,) and out['shared'][0] != 'ValueError', 'sample': case['shared'],
            'cls': ('repeated_units', case['nfrag'], case['shared'].split('}.{')[0])}


def cases(seed, tier, shard, nshards):
    rng = random.Random(f'{seed}:C15:{tier}:{shard}')
    made = 0
    for _ in range((SIZES[tier] // 6) // nshards):
        yield repeated_units_case(rng)
    for _ in range((SIZES[tier] // 8) // nshards):
        c = MC.random_marked_cut_case(rng, both_sides=True)
        if c is not None:
            yield c
    while made < SIZES[tier] // nshards:
        c = make_case(rng)
        if c is None:
            continue
        # one case per base-graph listing order, so that an order class can be a stream of its own
        for p in c['perms']:
            base = nx.Graph()
            for i in p:
                base.add_node(i, fragname='F%d' % i)
            for a, b, o in c['base_edges']:
                base.add_edge(a, b, order=o)
            ast, pre = M.base_to_ast(rng, base, start=p[0])
            cc = dict(c, listing=pre, base_string=G.to_string(ast))
            f = set(c['features'])
            pos = {frag: k for k, frag in enumerate(pre)}
            oi = c['order_index']
            for s in c['stereo']:
                pa, pb = c['part'][str(s['a1'])], c['part'][str(s['a2'])]
                if pa != pb:
                    lig, anc = (s['l2'], s['a2']) if pos[pa] < pos[pb] else (s['l1'], s['a1'])
                    if oi[str(lig)] < oi[str(anc)]:
                        f.add('cut_db_later_fragment_writes_substituent_first')
                    else:
                        f.add('cut_db_canonical_form')
            cc['features'] = sorted(f)
            cc.pop('perms')
            made += 1
            yield cc
            if rng.random() < 0.35:
                # the same base graph (same keys), nodes inserted in another order: a case of its own, because for
                # cuts AT a stereo double bond this is another face of the open finding (edge orientation decides
                # which anchor pysmiles' table treats as the first one)
                f2 = set(f) | {'reordered_insertion'}
                if 'cut_at_stereo_double_bond' in f2:
                    f2.add('db_cut_under_reordered_insertion')
                yield dict(cc, check='insertion_order', features=sorted(f2))


def translate(aa, frag_atoms):
    """fine node -> generator atom through the mapping entry (None for completed hydrogens)"""
    out = {}
    for n, d in aa.nodes(data=True):
        m = d.get('mapping') or []
        if m and all(e[0] in frag_atoms and isinstance(e[1], int) and e[1] < len(frag_atoms[e[0]]) for e in m):
            atoms = {frag_atoms[e[0]][e[1]] for e in m}
            if len(atoms) == 1:         # one entry, or the copies of one shared atom
                out[n] = next(iter(atoms))
    return out


def observed(aa, tr):
    ez, ch = set(), set()
    for n, lst in aa.nodes(data='ez_isomer'):
        for tup in lst or []:
            l1, a1, a2, l2, kind = tup
            ez.add((tr.get(l1, ('?', l1)), tr.get(a1, ('?', a1)), tr.get(a2, ('?', a2)), tr.get(l2, ('?', l2)), kind))
    for n, lab in aa.nodes(data='chiral'):
        if lab is not None:
            ch.add((tr.get(n, ('?', n)), lab))
    return ez, ch


def run_marked(case):
    """cut through a marked single bond (slash on both sides of the cut): no stereo expectation is attached,
    but the annotations may not depend on the order in which the same base graph lists its nodes, and a double bond with both marks written keeps SOME relation"""
    from cgsmiles import MoleculeResolver
    contracts.clear()
    viol = []
    base = nx.Graph()
    for n, name in case['base_graph']['nodes']:
        base.add_node(n, fragname=name)
    for a, b, o in case['base_graph']['edges']:
        base.add_edge(a, b, order=o)
    txt = case['base_string'] + '.' + case['frag_string']

    def sig(aa):
        out = set()
        for n, lst in aa.nodes(data='ez_isomer'):
            for tup in lst or []:
                out.add(tuple((tuple(aa.nodes[x].get('mapping')[0]) if aa.nodes[x].get('mapping') else ('H', x)) for x in tup[:4]) + (tup[4],))
        return out
    try:
        res = []
        for k in range(3):
            order_ = sorted(base.nodes) if k == 0 else random.Random(k * 7 + len(txt)).sample(sorted(base.nodes), len(base))
            b2 = nx.Graph()
            for n_ in order_:
                b2.add_node(n_, **base.nodes[n_])
            b2.add_edges_from((a, b, dict(d)) for a, b, d in base.edges(data=True))
            cg, aa = MoleculeResolver.from_graph(case['frag_string'], b2).resolve()
            res.append(sig(aa))
            # a double bond whose two substituents both carry their slash mark (in whichever fragment the substituent
            # sits) has a cis/trans relation in the uncut molecule, so it has one here
            tr = translate(aa, case.get('frag_atoms', {}))
            have = set()
            for n, lst in aa.nodes(data='ez_isomer'):
                for tup in lst or []:
                    have.add(frozenset((tr.get(tup[1]), tr.get(tup[2]))))
            # a relation may only name substituents that carry a slash mark in the input: never a hydrogen the library completed
            if k == 0 and case.get('ligands') is not None:
                allowed = set(case['ligands'])
                for n, lst in aa.nodes(data='ez_isomer'):
                    for tup in lst or []:
                        for lig in (tup[0], tup[3]):
                            # (an unmarked HEAVY neighbour written right behind a slashed descriptor does get the mark in the
                            # library's reading of 'C=C/[$x]C'; only hydrogens are judged here: the generator never writes one, so none carries a mark)
                            if tr.get(lig) not in allowed and aa.nodes[lig].get('element') == 'H':
                                viol.append(V('c15.relation_for_unmarked_substituent', f'{txt}: the stored relation {tup} names node {lig} ({aa.nodes[lig].get("element")}, '
                                              f'copy of generator atom {tr.get(lig)}) as substituent, which carries no slash mark in the input'))
                                break
                        else:
                            continue
                        break
                    else:
                        continue
                    break
            for a1, a2 in case.get('fully_marked', []):
                if frozenset((a1, a2)) not in have and k == 0:
                    viol.append(V('c15.marked_cut_relation_lost', f'{txt}: the double bond between generator atoms {a1} and {a2} has a slash mark next to both '
                                  f'substituents, but the resolved molecule stores no cis/trans relation for it'))
        # the same fragments LISTED in another order (other coarse keys, as in another spelling of the base string)
        keys_ = sorted(base.nodes)
        perm_ = dict(zip(keys_, random.Random(len(txt) + 11).sample(keys_, len(keys_))))
        b3 = nx.Graph()
        for n_ in sorted(keys_, key=lambda x: perm_[x]):
            b3.add_node(perm_[n_], **base.nodes[n_])
        b3.add_edges_from((perm_[a], perm_[b], dict(d)) for a, b, d in base.edges(data=True))
        cg3, aa3 = MoleculeResolver.from_graph(case['frag_string'], b3).resolve()
        if sig(aa3) != res[0]:
            viol.append(V('c15.listing_order_dependent', f'{txt}: stereo annotations differ when the base graph lists the same fragments in another order (keys {perm_}): '
                          f'{sorted(res[0], key=str)} vs {sorted(sig(aa3), key=str)}'))
        if any(r != res[0] for r in res[1:]):
            viol.append(V('c15.insertion_order_dependent', f'{txt}: stereo annotations differ when the same base graph (same keys) lists its nodes in another order: {[sorted(r, key=str) for r in res]}'))
    except ValueError:
        pass      # conflicting / dangling marks are reported by pysmiles for some of these spellings
    except Exception as err:
        viol.append(V('c15.cut_exception.' + type(err).__name__, f'{txt} raised {type(err).__name__}: {err}'))
    for rec in contracts.take('C15'):
        viol.append(V(rec['clause'], f'{txt} :: {rec["msg"]}'))
    contracts.clear()
    return {'violations': viol, 'nontrivial': True, 'sample': txt, 'cls': ('marked_cut', tuple(case['features']), case['nfrag'])}


def run(case):
    if case.get('kind') == 'marked_cut':
        return run_marked(case)
    if case.get('kind') == 'repeated_units':
        return run_repeated(case)
    from cgsmiles import MoleculeResolver
    contracts.clear()
    viol = []
    want_ez = {tuple(x) for x in case['expect_ez']}
    want_ch = {tuple(x) for x in case['expect_chiral']}
    if (len(case['single']) + len(case['frag_string'])) % 3 == 0:
        # history: the same molecule and the same cuts WITHOUT their slash marks (same fragment names, same atoms) are
        # resolved first in this process; what they left behind must not decide about the marked strings
        for twin in (case['single'], case['base_string'] + '.' + case['frag_string']):
            try:
                MoleculeResolver.from_string(twin.replace('/', '').replace('\\', '')).resolve()
                contracts.STATS['unmarked_twin_resolved_first'] += 1
            except Exception:
                pass
        contracts.clear()
    # uncut molecule
    try:
        cg, aa = MoleculeResolver.from_string(case['single']).resolve()
        ez, ch = observed(aa, translate(aa, {'M': case['single_atoms']}))
        if ez != want_ez:
            viol.append(V('c15.single_ez', f'uncut {case["single"]}: stereo references {sorted(ez, key=str)}, generator geometry {sorted(want_ez)}'))
        if ch != want_ch:
            viol.append(V('c15.single_chiral', f'uncut {case["single"]}: chirality labels {sorted(ch, key=str)}, written {sorted(want_ch)}'))
    except Exception as err:
        viol.append(V('c15.single_exception.' + type(err).__name__, f'uncut {case["single"]} raised {type(err).__name__}: {err}'))
    # cut molecule: the base graph lists the fragments in the order case['listing'], as a string and as a graph
    base = nx.Graph()
    key = {frag: k for k, frag in enumerate(case['listing'])}
    for frag in case['listing']:
        base.add_node(key[frag], fragname='F%d' % frag)
    for a, b, o in case['base_edges']:
        base.add_edge(key[a], key[b], order=o)
    txt = case['base_string'] + '.' + case['frag_string']
    for how in ('string', 'graph'):
        try:
            if how == 'graph':
                r = MoleculeResolver.from_graph(case['frag_string'], base)
            else:
                r = MoleculeResolver.from_string(txt)
            cg, aa = r.resolve()
        except Exception as err:
            viol.append(V('c15.cut_exception.' + type(err).__name__, f'{txt} ({how}) raised {type(err).__name__}: {err}'))
            continue
        ez, ch = observed(aa, translate(aa, case['frag_atoms']))
        if ez != want_ez:
            # same atoms with another class (cis <-> trans) is one thing, a relation that is missing, surplus or names
            # other atoms is another
            same_refs = {t[:4] for t in ez} == {t[:4] for t in want_ez}
            viol.append(V('c15.cut_ez' if same_refs else 'c15.cut_ez_references', f'{txt} ({how}): stereo references {sorted(ez, key=str)}, but the generator geometry / uncut molecule has {sorted(want_ez)}'))
        if ch != want_ch:
            viol.append(V('c15.cut_chiral', f'{txt} ({how}): chirality labels {sorted(ch, key=str)}, written {sorted(want_ch)}'))
    # the same base graph (same keys) with its nodes inserted in another order: nothing may change
    if case.get('check') != 'insertion_order':
        for rec in contracts.take('C15'):
            viol.append(V(rec['clause'], f'{txt} :: {rec["msg"]}'))
        contracts.clear()
        return {'violations': viol, 'nontrivial': case['ncuts'] > 0, 'sample': txt,
                'cls': (tuple(case['features']), case['ndb'], case['nfrag'], tuple(case['listing']))}
    viol = [v for v in viol if v['clause'] == 'never']     # expectations are judged by the plain case
    try:
        res = {}
        for tag_, order_ in (('key order', sorted(base.nodes)), ('shuffled insertion', random.Random(len(txt)).sample(sorted(base.nodes), len(base)))):
            b2 = nx.Graph()
            for n_ in order_:
                b2.add_node(n_, **base.nodes[n_])
            edges_ = list(base.edges(data=True))
            if tag_ != 'key order':
                random.Random(len(txt) + 1).shuffle(edges_)
            b2.add_edges_from((a, b, dict(d)) for a, b, d in edges_)
            cg2, aa2 = MoleculeResolver.from_graph(case['frag_string'], b2).resolve()
            res[tag_] = observed(aa2, translate(aa2, case['frag_atoms']))
        if res['key order'] != res['shuffled insertion']:
            same_refs = {t[:4] for t in res['key order'][0]} == {t[:4] for t in res['shuffled insertion'][0]} and res['key order'][1] == res['shuffled insertion'][1]
            viol.append(V('c15.insertion_order_dependent' if same_refs else 'c15.insertion_order_changes_references', f'{txt}: stereo annotations differ when the same base graph (same keys) lists its nodes in another order: '
                          f'{sorted(res["key order"][0], key=str)} vs {sorted(res["shuffled insertion"][0], key=str)}'))
    except Exception as err:
        viol.append(V('c15.cut_exception.' + type(err).__name__, f'{txt} (from_graph, reordered): raised {type(err).__name__}: {err}'))
    for rec in contracts.take('C15'):
        viol.append(V(rec['clause'], f'{txt} :: {rec["msg"]}'))
    contracts.clear()
    return {'violations': viol, 'nontrivial': case['ncuts'] > 0, 'sample': txt,
            'cls': (tuple(case['features']), case['ndb'], case['nfrag'], tuple(case['listing']))}
