"""C07 - writing a graph and reading it back is the identity (round trip; atlas exhaustive + random)."""
import itertools
import random

import networkx as nx

from ..gen import grammar as G
from ..oracles import V
from .. import util

PROPERTY = 'C07'
LEVEL = 'exploration'
RULE = ('all connected graphs with <= 6 nodes (NetworkX graph atlas) x every choice of one distinguished edge x order in '
        '{0,2,3,4} (all other edges single) + the all-single assignment + random order assignments, each under random '
        'relabelings (shuffled integer keys / insertion orders, string keys), random names and the orders stored as int, integral float, numpy int64 or float64, a third of the graphs with atomname / fragid attributes next to the name; plus random connected graphs '
        'up to 30 (thorough: 60) nodes with orders 0-4 and >= 10 ring closures; 4 % of the round trips follow a writer call that failed half-way. Oracle: read_cgsmiles(write_cgsmiles_graph(G)) '
        'is isomorphic to G on fragname and order; the written string is also parsed by the independent reference reader to '
        'tell a writer fault from a reader fault. distinct = (graph id or size class, distinguished-edge role, order); '
        'non-trivial = at least one non-single bond.')
ASSUMPTIONS = ['node keys are mutually comparable (the writer starts at min(graph))',
               'node names: alphanumeric, also starting with a digit or spelled like a number (01, 1E5, NAN), plus names with + - \' as they occur for ions and atoms in force fields (NA+, CL-, C1\', N-ter); names containing ] ; = | collide with the syntax itself and are not generated']
MECHANISMS = [('cgsmiles.write_cgsmiles', 'write_graph'), ('cgsmiles.read_cgsmiles', 'read_cgsmiles')]
FINDING_FEATURES = {}
_OLD = {'writer.ring_bond_order_not_written': 'nonsingle_ring_edge',
                    'writer.branch_bond_symbol_inside_parenthesis': 'nonsingle_branch_edge'}
EXHAUSTIVE = {'quick': False, 'thorough': True}
NAMES = ['A', 'B', 'PEO', 'TC5', 'X1', '2VP', 'NA+', 'CL-', "C1'", 'N-ter', '01', '1E5', 'NAN', '007']
SIZES = {'quick': dict(relabel=1, rand_assign=2, rand=600, max_n=30), 'thorough': dict(relabel=3, rand_assign=8, rand=20000, max_n=60)}


def atlas_connected(max_n=6):
    from networkx.generators.atlas import graph_atlas_g
    return [g for g in graph_atlas_g() if 1 <= len(g) <= max_n and nx.is_connected(g)]


def edge_roles(g, keys_sorted_start):
    """which edges the writer will cross as chain / branch / ring edges (for feature tagging only)"""
    start = min(g)
    succ = nx.dfs_successors(g, source=start)
    tree, branch = set(), set()
    for n, kids in succ.items():
        for i, k in enumerate(kids):
            tree.add(frozenset((n, k)))
            if i >= 1:
                branch.add(frozenset((n, k)))
    roles = {}
    for a, b in g.edges:
        e = frozenset((a, b))
        roles[e] = 'branch' if e in branch else ('chain' if e in tree else 'ring')
    return roles


def make_case(rng, g0, orders, relabel, gid):
    nodes = list(g0.nodes)
    if relabel == 'ints':
        keys = list(range(len(nodes)))
        rng.shuffle(keys)
    elif relabel == 'sparse':
        keys = rng.sample(range(100) if rng.random() < 0.5 else range(300, 5000), len(nodes))
    else:
        keys = ['n%02d' % k for k in rng.sample(range(60), len(nodes))]
    m = dict(zip(nodes, keys))
    ins = list(nodes)
    rng.shuffle(ins)
    edges = [(m[a], m[b], orders[frozenset((a, b))]) for a, b in g0.edges]
    rng.shuffle(edges)
    # the number type of an order is the caller's: int, or an integral float / numpy number (orders taken from RDKit's
    # GetBondTypeAsDouble, a numpy array or a JSON file) - equal to the int as a dictionary key
    return dict(nodes=[[m[n], rng.choice(NAMES)] for n in ins], edges=[list(e) for e in edges], gid=gid,
                order_type=rng.choice(['int', 'int', 'int', 'float', 'np.int64', 'np.float64']))


def cases(seed, tier, shard, nshards):
    cfg = SIZES[tier]
    rng = random.Random(f'{seed}:C07:{tier}:{shard}')
    k = 0
    for gi, g0 in enumerate(atlas_connected()):
        edges = [frozenset(e) for e in g0.edges]
        assigns = [({e: 1 for e in edges}, 'single', 1)]
        for e in edges:
            for o in (0, 2, 3, 4):
                a = {x: 1 for x in edges}
                a[e] = o
                assigns.append((a, 'one', o))
        for _ in range(cfg['rand_assign']):
            assigns.append(({e: rng.choice([0, 1, 1, 2, 3, 4]) for e in edges}, 'random', None))
        for a, kind, o in assigns:
            for r in range(cfg['relabel']):
                k += 1
                if k % nshards != shard:
                    continue
                c = make_case(rng, g0, a, rng.choice(['ints', 'ints', 'sparse', 'str']), f'atlas{gi}')
                c['assign'] = kind
                yield c
    for _ in range(cfg['rand'] // nshards):
        n = rng.choice([7, 10, 15, 20, cfg['max_n']])
        g0 = nx.Graph()
        g0.add_node(0)
        for i in range(1, n):
            g0.add_edge(rng.randrange(i), i)
        for _ in range(rng.choice([0, 1, 3, 6, 12])):
            a, b = rng.sample(range(n), 2)
            g0.add_edge(a, b)
        a = {frozenset(e): rng.choice([0, 1, 1, 1, 2, 3, 4]) for e in g0.edges}
        c = make_case(rng, g0, a, rng.choice(['ints', 'sparse', 'str']), f'rand{n}')
        c['assign'] = 'random'
        yield c
    # very long chains and large rings (polymer backbones of more than a thousand beads), numbered from one end
    if shard == seed % nshards:
        for kind in ('chain', 'ring'):
            n = rng.choice([1100, 1400])
            g0 = nx.path_graph(n) if kind == 'chain' else nx.cycle_graph(n)
            a = {frozenset(e): 1 for e in g0.edges}
            m = {i: i for i in range(n)}
            yield dict(nodes=[[i, NAMES[i % 3]] for i in range(n)], edges=[[u, v, 1] for u, v in g0.edges], gid=f'long_{kind}{n}', assign='single',
                       default_recursion_limit=True)
    # dense graphs: more than ten ring bonds open at the same time, so the writer needs several %nn markers on one node
    for _ in range(max(1, cfg['rand'] // (4 * nshards))):
        n = rng.choice([7, 8, 9, 10, 12])
        g0 = nx.complete_graph(n) if rng.random() < 0.4 else nx.gnp_random_graph(n, rng.choice([0.6, 0.8]), seed=rng.randrange(10 ** 6))
        if not nx.is_connected(g0):
            continue
        single = rng.random() < 0.6
        a = {frozenset(e): 1 if single else rng.choice([0, 1, 1, 1, 2, 3, 4]) for e in g0.edges}
        c = make_case(rng, g0, a, rng.choice(['ints', 'sparse', 'str']), f'dense{n}')
        c['assign'] = 'single' if single else 'random'
        yield c


def fresh(key):
    """an equal but distinct object (callers compute keys again when they add bonds: 1000 + i, 'bead%d' % i)"""
    return int(str(key)) if isinstance(key, int) else (key + 'x')[:-1]


def build(case):
    g = nx.Graph()
    for k_, (key, name) in enumerate(case['nodes']):
        g.add_node(key, fragname=name)
        if case.get('order_type') in ('float', 'np.int64'):
            # a graph that has been through a resolver carries further node attributes next to the name - an atom name that
            # differs from it, a fragment id: the name the writer writes is 'fragname'
            g.nodes[key].update(atomname='B%d' % k_, fragid=[k_])
    ot = case.get('order_type', 'int')
    if ot == 'float':
        cast = float
    elif ot.startswith('np.'):
        import numpy as np
        cast = getattr(np, ot[3:])
    else:
        cast = int
    for a, b, o in case['edges']:
        g.add_edge(fresh(a), fresh(b), order=cast(o))
    return g


def features_of(g):
    roles = edge_roles(g, None)
    f = set()
    for (e, role) in roles.items():
        a, b = tuple(e)
        if g.edges[a, b]['order'] != 1:
            f.add(f'nonsingle_{role}_edge')
    nring = sum(1 for r in roles.values() if r == 'ring')
    if nring >= 10:
        f.add('ge10_ring_closures')
    if nring:
        f.add('ring_closure')
    return f, roles


def prepare(case):
    g = build(case)
    f, roles = features_of(g)
    case['features'] = sorted(f)
    return case


_orig_cases = cases


def cases(seed, tier, shard, nshards):   # noqa: F811 - add features computed from the graph
    rng = random.Random(f'{seed}:C07:poison:{tier}:{shard}')
    for c in _orig_cases(seed, tier, shard, nshards):
        c = prepare(c)
        if rng.random() < 0.04 and not c.get('default_recursion_limit'):
            # history: an earlier writer call in this process FAILED half-way (a ring graph one of whose nodes has no
            # name; the writer raises after it has opened ring bonds); the round trip that follows must not notice
            n = rng.randint(3, 7)
            chords = [sorted(rng.sample(range(n), 2)) for _ in range(rng.choice([0, 1, 2]))]
            c['failed_write_before'] = dict(n=n, chords=chords, unnamed=rng.randrange(1, n), orders=[rng.choice([1, 1, 2, 3]) for _ in range(n + len(chords))])
            c['features'] = sorted(set(c['features']) | {'after_a_failed_write'})
        elif rng.random() < 0.05 and not c.get('default_recursion_limit') and len(c['nodes']) >= 3:
            # history on ONE graph object: written, then edited in place (a bead added to some node, a bond moved or added),
            # then written again; the second string must read back as the edited graph
            c['rewrite_after_edit'] = dict(attach=rng.randrange(len(c['nodes'])), pair=sorted(rng.sample(range(len(c['nodes'])), 2)),
                                           order=rng.choice([1, 1, 2, 3]), name=rng.choice(NAMES))
            c['features'] = sorted(set(c['features']) | {'written_again_after_an_in_place_edit'})
        yield c


def failed_write(spec):
    """a writer call that raises after ring bonds were opened; -> True when it did raise"""
    from cgsmiles.write_cgsmiles import write_cgsmiles_graph
    g = nx.cycle_graph(spec['n'])
    g.add_edges_from(map(tuple, spec['chords']))
    for (a, b), o in zip(list(g.edges), spec['orders']):
        g.edges[a, b]['order'] = o
    for n in g:
        if n != spec['unnamed']:
            g.nodes[n]['fragname'] = 'A'
    try:
        write_cgsmiles_graph(g)
    except Exception:
        return True
    return False


def run(case):
    import cgsmiles
    from cgsmiles.write_cgsmiles import write_cgsmiles_graph
    g = build(case)
    viol = []
    s = None
    if case.get('default_recursion_limit'):
        # long chains / large rings under the interpreter's default recursion limit (networkx' matcher raises the limit
        # as a side effect of earlier comparisons in this process); compared without a graph matcher
        import collections
        import sys
        old_limit = sys.getrecursionlimit()
        sys.setrecursionlimit(1000)
        try:
            s = write_cgsmiles_graph(g)
            g2 = cgsmiles.read_cgsmiles(s)
            same = (len(g2) == len(g) and g2.number_of_edges() == g.number_of_edges() and nx.is_connected(g2)
                    and sorted(d for _, d in g2.degree) == sorted(d for _, d in g.degree)
                    and collections.Counter(nx.get_node_attributes(g2, 'fragname').values()) == collections.Counter(nx.get_node_attributes(g, 'fragname').values())
                    and all(d.get('order') == 1 for _, _, d in g2.edges(data=True)))
            if not same:
                viol.append(V('c07.not_isomorphic', f'{case["gid"]}: the written string ({len(s)} characters) reads back as {len(g2)} nodes / {g2.number_of_edges()} edges'))
        except BaseException as err:
            if isinstance(err, (KeyboardInterrupt, SystemExit)) or type(err).__name__ == 'CaseTimeout':
                raise
            viol.append(V('c07.exception.' + type(err).__name__, f'{case["gid"]} ({len(g)} nodes in a row) raised {type(err).__name__}: {str(err)[:100]}'))
        finally:
            sys.setrecursionlimit(old_limit)
        return {'violations': viol, 'nontrivial': True, 'sample': case['gid'], 'cls': (case['gid'],)}
    counters = {}
    if case.get('failed_write_before'):
        counters['failed_writes_before_a_round_trip'] = int(failed_write(case['failed_write_before']))
    try:
        s = write_cgsmiles_graph(g)
        g2 = cgsmiles.read_cgsmiles(s)
        if not util.iso(g, g2, node_keys=('fragname',), edge_keys=('order',)):
            why = ''
            try:
                nodes, edges = G.denote(G.parse(s))
                ref = util.graph_from_ref(nodes, edges)
                why = ('the reference reader agrees with the input graph: reader fault' if util.iso(g, ref)
                       else 'the written string denotes a different graph: writer fault')
            except (G.NotInGrammar, G.RefSyntaxError) as err:
                why = f'the written string is outside the documented grammar ({err}): writer fault'
            viol.append(V('c07.not_isomorphic', f'graph nodes {case["nodes"]} edges {case["edges"]} written as {s!r} reads back as '
                          f'{[g2.nodes[n].get("fragname") for n in g2]} {sorted(util.edge_table(g2).items())}; {why}'))
        ed = case.get('rewrite_after_edit')
        if ed and not viol:
            keys = list(g.nodes)
            new = max(keys) + 1 if all(isinstance(k, int) for k in keys) else 'n99'
            g.add_node(new, fragname=ed['name'])
            g.add_edge(keys[ed['attach']], new, order=ed['order'])
            a_, b_ = keys[ed['pair'][0]], keys[ed['pair'][1]]
            if g.has_edge(a_, b_) and not nx.has_path(nx.restricted_view(g, [], [(a_, b_)]), a_, b_):
                pass            # a bridge: leave it
            elif g.has_edge(a_, b_):
                g.remove_edge(a_, b_)
            else:
                g.add_edge(a_, b_, order=ed['order'])
            s2 = write_cgsmiles_graph(g)
            g3 = cgsmiles.read_cgsmiles(s2)
            counters['rewrites_after_in_place_edit'] = 1
            if not util.iso(g, g3, node_keys=('fragname',), edge_keys=('order',)):
                viol.append(V('c07.not_isomorphic', f'graph nodes {case["nodes"]} edges {case["edges"]} was written as {s!r}, then edited in place (node {new!r} added to {keys[ed["attach"]]!r}, '
                              f'bond {a_!r}-{b_!r} toggled) and written as {s2!r}, which does not read back as the edited graph'))
    except Exception as err:
        viol.append(V('c07.exception.' + type(err).__name__, f'graph nodes {case["nodes"]} edges {case["edges"]} (written: {s!r}) raised {type(err).__name__}: {err}'))
    nonsingle = any(o != 1 for _, _, o in case['edges'])
    orders = tuple(sorted({o for _, _, o in case['edges']}))
    return {'violations': viol, 'nontrivial': nonsingle, 'sample': s or case, 'counters': counters,
            'cls': (case['gid'], case['assign'], case.get('order_type', 'int'), tuple(case['features']), orders if case['assign'] != 'random' else len(case['edges']))}
