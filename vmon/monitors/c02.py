"""C02 - post-state contract on every MoleculeResolver.resolve call over a mixed workload."""
from . import poststate
from .. import contracts

PROPERTY = 'C02'
LEVEL = 'exploration'
MECHANISMS = [('cgsmiles.graph_utils', 'merge_graphs'), ('cgsmiles.graph_utils', 'annotate_fragments'), ('cgsmiles.graph_utils', 'sort_nodes_by_attr'), ('cgsmiles.resolve', 'MoleculeResolver.resolve_disconnected_molecule')]
REQUIRED_COUNTERS = ['resolve_calls_observed']
ASSUMPTIONS = ['the per-atom annotations compared on a copy are the template attributes outside a fixed list of bookkeeping keys (vmon/contracts.py INTERNAL_KEYS)', 'bond orders are compared up to aromaticity re-perception', 'for an atom shared by two coarse nodes only the element is compared; ambiguous correspondences (two coarse nodes of the same fragment name sharing atoms) are skipped and counted']
RULE = "mixed resolver workload: unique-label cut molecules (G-mol x G-cut x G-render, all three constructors), shared-atom cases, virtual nodes / zero-order edges, 2-4-level hierarchies (atomistic and coarse last level), coarse cut graphs (a quarter with bead names like NA+, CL-, C1-prime, N-ter), periodic copolymers (the same ordered name pair on several base edges, optionally one surplus base-edge order), and G-ambig polymer inputs (unlabelled $, homopolymers, surplus descriptors, multiplied units, rings, both matching conventions, atomistic and coarse). After EVERY resolve() call (each level) an icontract post-condition checks: fragid present and a coarse key on every fine node; coarse[k]['graph'] == set of fine nodes recording k; cover; the mapped nodes of k are a bijective copy of the template under k's name (elements/node names, charges, annotations, internal bonds and orders, no extra bonds); every node reports the fragment name. distinct = (kind, feature set, #heavy, #fragments); non-trivial = at least one resolve() call completed."


def setup():
    poststate.setup()


def cases(seed, tier, shard, nshards):
    yield from poststate.cases(PROPERTY, seed, tier, shard, nshards)


def run(case):
    return poststate.run(PROPERTY, case)
