"""C11 - virtual nodes and zero-order edges are inert (metamorphic + fault half)."""
import collections
import copy
import random
import re

import networkx as nx

from ..gen import mol as M
from ..gen import grammar as G
from ..oracles import V
from .. import contracts
from . import molcommon as MC

PROPERTY = 'C11'
LEVEL = 'exploration'
RULE = ('unique-label cut molecules (as C01) whose base graph gets 1-3 fragment-less nodes attached by order-0 chain edges, '
        'order-0 ring bonds or order-0 branches at first / middle / last position, plus order-0 edges between real nodes; '
        'all three constructors; order-sensitive polymer strings (several compatible $ on distinguishable atoms) with insertions that keep the written order of the real nodes, compared with the plain string incl. ownership. Oracle: the fine molecule equals the ground truth and the molecule resolved without the '
        'insertions; every real coarse node still owns exactly the atoms of its own fragment (multiset of element + H '
        'count, fragment name, heavy-atom count); virtual nodes own no atoms. Fault half: the same insertion with order '
        '1-4 must raise SyntaxError. Hierarchies whose base graph gets a fragment-less node named like a fragment that only a deeper block defines (blocks are separate name spaces). Order-0 edges written through the multiplier syntax: the molecule as n unconnected copies '
        '"{[#R](rest).|n}" whose anchor fragment carries a surplus self-complementary descriptor (a bond would form if the edge had an '
        'order), and fragment-less nodes ".[#VX].([#VY]).|k". distinct = (feature set, #heavy, #fragments); non-trivial = at least one virtual node.')
ASSUMPTIONS = ['fragment names are unique per coarse node in this workload, so a coarse node is identified by its name']
MECHANISMS = [('cgsmiles.resolve', 'MoleculeResolver.resolve_disconnected_molecule'), ('cgsmiles.graph_utils', 'annotate_fragments'),
              ('cgsmiles.resolve', 'MoleculeResolver.edges_from_bonding_descrpt')]
SIZES = {'quick': 4000, 'thorough': 80000}


def setup():
    contracts.install()


def cases(seed, tier, shard, nshards):
    rng = random.Random(f'{seed}:C11:{tier}:{shard}')
    made = 0
    while made < SIZES[tier] // nshards:
        if rng.random() < 0.08:
            z = lower_level_name_case(rng)
            if z is not None:
                made += 1
                yield z
            continue
        if rng.random() < 0.12:
            z = order_sensitive_case(rng)
            if z is not None:
                made += 1
                yield z
            continue
        if rng.random() < 0.12:
            z = zero_multiplier_case(rng)
            if z is not None:
                made += 1
                yield z
            continue
        c = MC.random_cut_case(rng, rng.choice([3, 6, 10, 16]))
        if c is None:
            continue
        fault = rng.random() < 0.2
        v = MC.add_virtual(rng, c, order=rng.choice([1, 2, 3, 4]) if fault else 0,
                           n_zero_edges=0 if fault else None)
        v['fault'] = fault
        if fault:
            v['features'] = sorted(set(v['features']) | {'fault_order_ge1'})
        made += 1
        yield v
        if not fault and rng.random() < 0.15:
            yield dict(v, reuse=True, ctor='from_graph', sub=rng.randrange(10 ** 6), features=sorted(set(v['features']) | {'base_graph_object_reused'}))


FIRST_ATOM = re.compile(r'^((?:[=#$:.\-]?\[[$<>!][^\]]*\][=#$:\-]?)*)(\[[^\]$<>!][^\]]*\]|Cl|Br|[A-Za-z])')


def zero_multiplier_case(rng):
    """order-0 edges written through the multiplier syntax `(...).|n`: (i) the whole molecule as n unconnected copies
    '{[#R](rest).|n}', where the repeated anchor's fragment carries a surplus self-complementary descriptor, so that a bond
    WOULD form if the edge between the copies had an order; (ii) fragment-less nodes '.[#VX].([#VY]).|k' appended."""
    c = MC.random_cut_case(rng, rng.choice([3, 6, 10]), ctor='string')
    if c is None:
        return None
    ast = copy.deepcopy(c['base_ast'])
    if rng.random() < 0.5:
        k = rng.choice([2, 3])
        s = c['base_string'][:-1] + '.[#VX].([#VY]).|%d}' % k
        return dict(c, kind='zero_mult', base_string=s, copies=1, virtual_names=['VX', 'VY'], alt_base_strings=[],
                    features=sorted(set(c['features']) | {'virtual_nodes_by_zero_multiplier'}))
    if any(e['rings'] or e['mult'] != 1 for e, _, _, _ in G._flat(ast)) or len(ast) < 2 or 'nested' in str(c['features']):
        return None
    root, rest = ast[0], ast[1:]
    if root['branches']:
        return None     # the multiplier repeats the anchor with its LAST branch only
    n = rng.choice([2, 3, 4])
    root['branches'].append(G.br(rest, order=rest[0]['bond'], mult=n, between=0))
    rest[0]['bond'] = None
    base_string = G.to_string([root])
    # mechanisms of the open C05 findings (nested branch / ring bond inside a multiplied unit) are not this property's business
    if G.features([root]) & {'nested_branch_in_mult_unit', 'ring_in_mult_unit', 'node_mult_after_bond_in_mult_unit',
                             'nested_mult_after_nested_branch', 'ring_on_mult_anchor', 'branch_mult_in_mult_unit'}:
        return None
    name = root['name']
    m = re.search(r'#%s=([^,}]*)' % re.escape(name), c['frag_string'])
    fm = FIRST_ATOM.match(m.group(1)) if m else None
    if not fm:
        return None
    text = m.group(1)[:fm.end()] + '[$zz]' + m.group(1)[fm.end():]
    frag_string = c['frag_string'][:m.start(1)] + text + c['frag_string'][m.end(1):]
    return dict(c, kind='zero_mult', base_string=base_string, frag_string=frag_string, copies=n, virtual_names=[], alt_base_strings=[],
                features=sorted(set(c['features']) | {'copies_by_zero_multiplier'}))


ORDER_SENSITIVE_UNITS = {'PS': '[$]CC[$]c1ccccc1', 'CF': '[$]C(F)C(Cl)[$]', 'PP': '[$]CC(C)[$]', 'VA': '[$]CC[$]O', 'PE': '[$]CC[$]', 'PMA': '[$]CC[$]C(=O)OC',
                         'T3': '[$]C(F)C[$](Cl)N[$]', 'OH': '[$]O', 'ME': '[$]C', 'DIR': '[>]CC(C)[<]', 'NH': '[$]N[$]'}


def order_sensitive_case(rng):
    """Polymer-style strings whose units carry several mutually compatible descriptors on DISTINGUISHABLE atoms
    (polystyrene with '$'): which atoms bond depends on the sequence in which the resolver works through the base edges.
    Fragment-less nodes and order-0 edges are then inserted into the written string without touching the written order of
    the real nodes: as side branch in front of the continuing chain, with order-0 ring bonds to later nodes, at either end,
    and as order-0 ring bonds between real nodes.  The molecule and the atoms of every real node must stay the same."""
    names = rng.sample(sorted(ORDER_SENSITIVE_UNITS), rng.randint(1, 3))
    n = rng.randint(2, 9)
    plain = G.random_ast(rng, n, max_depth=2, p_branch=rng.choice([0.0, 0.25]), p_bond=0.0, n_rings=rng.choice([0, 0, 1]), names=names,
                         p_trailing_branch=rng.choice([0, 0.2]), orders=(1,), p_pct=0.0, p_mult_node=rng.choice([0.0, 0.0, 0.4]), max_mult=3)
    if G.features(plain) & {'ring_on_mult_anchor', 'node_mult_after_bond_in_mult_unit'}:
        return None
    ast = copy.deepcopy(plain)
    everything = [e for e, _, _, _ in G._flat(ast)]
    # insertions hang on (and ring bonds end at) nodes that are written once; an order-0 edge may well LEAD INTO a
    # multiplied node ('[#V].[#A]|3')
    flat = [e for e in everything if e['mult'] == 1] or everything[:1]
    free = [m for m in range(10, 100) if not any(r[1] == m for e in everything for r in e['rings'])]
    rng.shuffle(free)
    feats = {'order_sensitive_units'} | {'unit_' + x for x in names}
    nv = 0
    for _ in range(rng.randint(1, 3)):
        how = rng.choice(['front_branch', 'front_branch', 'ring_between_real', 'last', 'first', 'branch'])
        if how in ('front_branch', 'branch'):
            i = rng.randrange(len(flat))
            v = G.el('V%d' % nv)
            nv += 1
            b = G.br([v], order=0)
            if how == 'front_branch':
                flat[i]['branches'].insert(0, b)
                feats.add('virtual_branch_in_front_of_the_chain')
            else:
                flat[i]['branches'].append(b)
                feats.add('virtual_branch')
            written = [e for e, _, _, _ in G._flat(ast)]
            later = [e for e in written[next(k for k, e in enumerate(written) if e is v) + 1:] if e in flat]
            for _ in range(rng.choice([0, 1, 1, 2])):
                if later and free:
                    m = free.pop()
                    v['rings'].append((0, m, True))
                    rng.choice(later)['rings'].append((None, m, True))
                    feats.add('virtual_ring_bond')
        elif how == 'ring_between_real' and len(flat) >= 2 and free:
            i, j = sorted(rng.sample(range(len(flat)), 2))
            m = free.pop()
            flat[i]['rings'].append((0, m, True))
            flat[j]['rings'].append((None, m, True))
            feats.add('zero_edge_between_real')
        elif how == 'last':
            ast.append(G.el('V%d' % nv, bond=0))
            nv += 1
            feats.add('virtual_last')
        elif how == 'first' and ast[0].get('bond') is None:
            ast[0]['bond'] = 0
            ast.insert(0, G.el('V%d' % nv))
            nv += 1
            feats.add('virtual_first')
    try:
        G.denote(ast)
        G.denote(plain)
    except G.RefSyntaxError:
        return None
    frag = '{' + ','.join('#%s=%s' % (nm, ORDER_SENSITIVE_UNITS[nm]) for nm in names) + '}'
    legacy = rng.random() < 0.7
    return dict(kind='order_sensitive', string=G.to_string(ast) + '.' + frag, plain_string=G.to_string(plain) + '.' + frag, legacy=legacy,
                features=sorted(feats | {'legacy_on' if legacy else 'legacy_off'}), nreal=len(G._flat(plain)))


def run_order_sensitive(case):
    from cgsmiles import MoleculeResolver
    contracts.clear()
    viol = []

    def view(string):
        cg, aa = MoleculeResolver.from_string(string, legacy=case['legacy']).resolve()
        real = [k for k, d in cg.nodes(data=True) if not re.fullmatch(r'V\d+', str(d.get('fragname')))]
        rank = {k: i for i, k in enumerate(real)}
        g = nx.Graph()
        for a, d in aa.nodes(data=True):
            g.add_node(a, key=(d.get('element'), d.get('charge', 0), tuple(sorted(rank.get(f, -1) for f in d.get('fragid', [])))))
        for a, b, d in aa.edges(data=True):
            g.add_edge(a, b, order=d.get('order', 1))
        virtual_atoms = [k for k, d in cg.nodes(data=True) if k not in rank and d.get('graph') is not None and len(d['graph'])]
        return g, virtual_atoms
    try:
        ref, _ = view(case['plain_string'])
    except Exception as err:
        contracts.clear()
        return {'violations': [], 'rejected': {'plain_string_not_resolvable_' + type(err).__name__: 1}, 'nontrivial': False, 'sample': case['plain_string'], 'cls': 'order_sensitive_rejected'}
    try:
        got, virt = view(case['string'])
        if virt:
            viol.append(V('c11.virtual_node_has_atoms', f"{case['string']}: fragment-less nodes {virt} own atoms"))
        if not nx.is_isomorphic(ref, got, node_match=lambda x, y: x['key'] == y['key'], edge_match=lambda x, y: x['order'] == y['order']):
            viol.append(V('c11.molecule_changed', f"{case['string']} (legacy={case['legacy']}) resolves to a different molecule or to different atoms per coarse node than the same string "
                          f"without the fragment-less nodes and order-0 edges, {case['plain_string']}: bonds {sorted((min(a, b), max(a, b)) for a, b in got.edges)[:30]} vs {sorted((min(a, b), max(a, b)) for a, b in ref.edges)[:30]}"))
    except Exception as err:
        viol.append(V('c11.exception.' + type(err).__name__, f"{case['string']} raised {type(err).__name__}: {err} (without the insertions: {case['plain_string']})"))
    contracts.clear()
    return {'violations': viol, 'nontrivial': True, 'sample': case['string'], 'cls': ('order_sensitive', tuple(case['features']), case['nreal'])}


def lower_level_name_case(rng):
    """a hierarchy (3+ blocks) whose BASE graph gets a fragment-less node that carries a name defined only in a deeper
    block: every block is a name space of its own, so the node is virtual at its level and stays inert"""
    m = MC.random_multilevel_case(rng, rng.choice([6, 10]), coarse_last=False)
    if m is None:
        return None
    blocks = re.findall(r'\{[^\}]+\}', m['multi_string'])
    if len(blocks) < 3:
        return None
    defined = lambda b: set(re.findall(r'(?:(?<=\{)|(?<=,))#(\w+)=', b))
    first = defined(blocks[1])
    deeper = sorted({x for b in blocks[2:] for x in defined(b)} - first - set(re.findall(r'\[#(\w+)', blocks[0])))
    if not deeper:
        return None
    name = rng.choice(deeper)
    base = blocks[0][:-1] + '.[#%s]' % name + ('.[#%s]' % rng.choice(deeper) if rng.random() < 0.3 else '') + '}'
    return dict(kind='lower_level_name', multi_string=base + '.' + '.'.join(blocks[1:]), plain_string=m['multi_string'], truth=m['truth'],
                virtual_names=[name], features=sorted(set(m['features']) | {'virtual_node_named_like_a_fragment_of_a_deeper_level'}))


def run_lower_level_name(case):
    from cgsmiles import MoleculeResolver
    contracts.clear()
    viol = []
    truth = MC.truth_from_json(case['truth'])
    s = case['multi_string']
    try:
        cg0 = None
        for step, (cg, aa) in enumerate(MoleculeResolver.from_string(s).resolve_iter()):
            if step == 0:
                for k, d in cg.nodes(data=True):
                    if d.get('fragname') in case['virtual_names'] and d.get('graph') is not None and len(d['graph']):
                        viol.append(V('c11.virtual_node_has_atoms', f'{s}: the fragment-less base node {d.get("fragname")} owns fine nodes {sorted(d["graph"].nodes)[:6]}'))
        heavy, problems = M.collapse_h(aa)
        if problems or not M.same_molecule(heavy, truth):
            viol.append(V('c11.molecule_changed', f'{s} -> {M.describe(heavy)}; without the fragment-less node the molecule is {M.describe(truth)}'))
    except Exception as err:
        viol.append(V('c11.exception.' + type(err).__name__, f'{s} raised {type(err).__name__}: {err} (without the fragment-less node: {case["plain_string"]})'))
    contracts.clear()
    return {'violations': viol, 'nontrivial': True, 'sample': s, 'cls': ('lower_level_name', tuple(case['features']))}


def run_zero_mult(case):
    contracts.clear()
    viol = []
    txt = MC.case_text(case)
    truth = MC.truth_from_json(case['truth'])
    want = nx.disjoint_union_all([truth] * case['copies'])
    res = MC.resolve_case(case)
    if res['error']:
        viol.append(V('c11.exception.' + res['error'].split(':')[0], f'{txt} raised {res["error"]}'))
    else:
        if res['problems'] or not M.same_molecule(res['heavy'], want):
            viol.append(V('c11.molecule_changed', f'{txt} -> {M.describe(res["heavy"])}; expected {case["copies"]} unconnected copies of {M.describe(truth)}'))
        for k, d in res['cg'].nodes(data=True):
            if d.get('fragname') in case['virtual_names'] and d.get('graph') is not None and len(d['graph']):
                viol.append(V('c11.virtual_node_has_atoms', f'{txt}: fragment-less node {d.get("fragname")} owns atoms'))
    contracts.clear()
    return {'violations': viol, 'nontrivial': True, 'sample': txt, 'cls': ('zero_mult', tuple(case['features']), case['copies'])}


def owned(cg, aa):
    """fragment name -> multiset of (element, #H) of the atoms the coarse node owns"""
    out = {}
    for k, d in cg.nodes(data=True):
        gr = d.get('graph')
        atoms = collections.Counter()
        if gr is not None:
            for n in gr.nodes:
                if aa.nodes[n].get('element') == 'H':
                    continue
                nh = sum(1 for x in aa[n] if aa.nodes[x].get('element') == 'H')
                atoms[(aa.nodes[n].get('element'), nh)] += 1
        out[d.get('fragname')] = atoms
    return out


def run_reuse(case):
    """history on one networkx base graph: resolved while its fragment-less nodes are legal, then edited, then resolved again"""
    from cgsmiles import MoleculeResolver
    contracts.clear()
    viol = []
    txt = MC.case_text(case)
    truth = MC.truth_from_json(case['truth'])
    base = nx.Graph()
    for n, name in case['base_graph']['nodes']:
        base.add_node(n, fragname=name)
    for a, b, o in case['base_graph']['edges']:
        base.add_edge(a, b, order=o)
    try:
        cg, aa = MoleculeResolver.from_graph(case['frag_string'], base).resolve()
        heavy, problems = M.collapse_h(aa)
        if problems or not M.same_molecule(heavy, truth):
            viol.append(V('c11.molecule_changed', f'{txt} -> {M.describe(heavy)}; expected {M.describe(truth)}'))
        # second use of the same graph object: still the same molecule
        cg, aa = MoleculeResolver.from_graph(case['frag_string'], base).resolve()
        heavy, problems = M.collapse_h(aa)
        if problems or not M.same_molecule(heavy, truth):
            viol.append(V('c11.molecule_changed_on_reuse', f'{txt}: resolving the same base graph object a second time -> {M.describe(heavy)}; expected {M.describe(truth)}'))
        # now one fragment-less node gets a real edge: must be rejected although the graph was resolved before
        v = case['virtual'][case['sub'] % len(case['virtual'])]
        nb = sorted(base[v], key=str)[0]
        base.edges[v, nb]['order'] = 1 + case['sub'] % 3
        for target in (base, cg):
            try:
                if target is cg:
                    cg.edges[v, nb]['order'] = base.edges[v, nb]['order']
                MoleculeResolver.from_graph(case['frag_string'], target).resolve()
                viol.append(V('c11.fragmentless_node_accepted_on_reuse', f'{txt}: after the graph had been resolved once, the edge {v}-{nb} of the fragment-less node was given order '
                              f'{base.edges[v, nb]["order"]} and the {"returned coarse graph" if target is cg else "same graph"} was resolved without error'))
            except SyntaxError:
                pass
    except Exception as err:
        viol.append(V('c11.exception.' + type(err).__name__, f'{txt} (graph reused) raised {type(err).__name__}: {err}'))
    contracts.clear()
    return {'violations': viol, 'nontrivial': True, 'sample': txt, 'cls': ('reuse', tuple(case['features']), case['nfrag'])}


def run(case):
    if case.get('reuse'):
        return run_reuse(case)
    if case.get('kind') == 'zero_mult':
        return run_zero_mult(case)
    if case.get('kind') == 'lower_level_name':
        return run_lower_level_name(case)
    if case.get('kind') == 'order_sensitive':
        return run_order_sensitive(case)
    contracts.clear()
    viol = []
    txt = MC.case_text(case)
    if case['fault']:
        try:
            MC.make_resolver(case).resolve()
            viol.append(V('c11.fragmentless_node_accepted', f'{txt}: a fragment-less node with an edge of order >= 1 was resolved'))
        except SyntaxError:
            pass
        except Exception as err:
            viol.append(V('c11.fragmentless_node_wrong_error', f'{txt}: raised {type(err).__name__}: {err} instead of SyntaxError'))
        contracts.clear()
        return {'violations': viol, 'nontrivial': True, 'cls': ('fault', tuple(case['features'])), 'sample': txt,
                'rejected': {'fragmentless_node_with_real_edge': 0 if viol else 1}}
    truth = MC.truth_from_json(case['truth'])
    res = MC.resolve_case(case)
    plain = MC.resolve_case(dict(case['plain'], frag_string=case['frag_string']))
    if res['error']:
        viol.append(V('c11.exception.' + res['error'].split(':')[0], f'{txt} raised {res["error"]}'))
    else:
        if res['problems'] or not M.same_molecule(res['heavy'], truth):
            viol.append(V('c11.molecule_changed', f'{txt} -> {M.describe(res["heavy"])}; without the virtual nodes/edges the molecule is {M.describe(truth)}'))
        want = {}
        tnodes = {n[0]: (n[1], n[3]) for n in case['truth']['nodes']}
        for name, atoms in case['frag_atoms'].items():
            want[name] = collections.Counter(tnodes[a] for a in atoms)
        got = owned(res['cg'], res['aa'])
        for name, ms in want.items():
            if got.get(name) != ms:
                viol.append(V('c11.mapping_changed', f'{txt}: coarse node {name} owns {dict(got.get(name, {}))}, its fragment has {dict(ms)}'))
                break
        for name, ms in got.items():
            if name not in want and ms:
                viol.append(V('c11.virtual_node_has_atoms', f'{txt}: fragment-less node {name} owns atoms {dict(ms)}'))
        if not plain['error'] and not M.same_molecule(plain['heavy'], res['heavy']):
            viol.append(V('c11.differs_from_plain', f'{txt} differs from the same input without virtual nodes'))
    contracts.clear()
    return {'violations': viol, 'nontrivial': True, 'sample': txt,
            'cls': (tuple(case['features']), case['nheavy'], case['nfrag'])}
