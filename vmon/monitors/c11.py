"""C11 - virtual nodes and zero-order edges are inert (metamorphic + fault half)."""
import collections
import random

import networkx as nx

from ..gen import mol as M
from ..oracles import V
from .. import contracts
from . import molcommon as MC

PROPERTY = 'C11'
LEVEL = 'exploration'
RULE = ('unique-label cut molecules (as C01) whose base graph gets 1-3 fragment-less nodes attached by order-0 chain edges, '
        'order-0 ring bonds or order-0 branches at first / middle / last position, plus order-0 edges between real nodes; '
        'all three constructors. Oracle: the fine molecule equals the ground truth and the molecule resolved without the '
        'insertions; every real coarse node still owns exactly the atoms of its own fragment (multiset of element + H '
        'count, fragment name, heavy-atom count); virtual nodes own no atoms. Fault half: the same insertion with order '
        '1-4 must raise SyntaxError. distinct = (feature set, #heavy, #fragments); non-trivial = at least one virtual node.')
ASSUMPTIONS = ['fragment names are unique per coarse node in this workload, so a coarse node is identified by its name']
MECHANISMS = [('cgsmiles.resolve', 'MoleculeResolver.resolve_disconnected_molecule'), ('cgsmiles.graph_utils', 'annotate_fragments'),
              ('cgsmiles.resolve', 'MoleculeResolver.edges_from_bonding_descrpt')]
SIZES = {'quick': 4000, 'thorough': 80000}


def setup():
    contracts.install()


def cases(seed, tier, shard, nshards):
    rng = random.Random(f'{seed}:C11:{tier}:{shard}')
    made = 0
    while made < SIZES[tier] // nshards:
        c = MC.random_cut_case(rng, rng.choice([3, 6, 10, 16]))
        if c is None:
            continue
        fault = rng.random() < 0.2
        v = MC.add_virtual(rng, c, order=rng.choice([1, 2, 3, 4]) if fault else 0,
                           n_zero_edges=0 if fault else None)
        v['fault'] = fault
        if fault:
            v['features'] = sorted(set(v['features']) | {'fault_order_ge1'})
        made += 1
        yield v
        if not fault and rng.random() < 0.15:
            yield dict(v, reuse=True, ctor='from_graph', sub=rng.randrange(10 ** 6), features=sorted(set(v['features']) | {'base_graph_object_reused'}))


def owned(cg, aa):
    """fragment name -> multiset of (element, #H) of the atoms the coarse node owns"""
    out = {}
    for k, d in cg.nodes(data=True):
        gr = d.get('graph')
        atoms = collections.Counter()
        if gr is not None:
            for n in gr.nodes:
                if aa.nodes[n].get('element') == 'H':
                    continue
                nh = sum(1 for x in aa[n] if aa.nodes[x].get('element') == 'H')
                atoms[(aa.nodes[n].get('element'), nh)] += 1
        out[d.get('fragname')] = atoms
    return out


def run_reuse(case):
    """history on one networkx base graph: resolved while its fragment-less nodes are legal, then edited, then resolved again"""
    from cgsmiles import MoleculeResolver
    contracts.clear()
    viol = []
    txt = MC.case_text(case)
    truth = MC.truth_from_json(case['truth'])
    base = nx.Graph()
    for n, name in case['base_graph']['nodes']:
        base.add_node(n, fragname=name)
    for a, b, o in case['base_graph']['edges']:
        base.add_edge(a, b, order=o)
    try:
        cg, aa = MoleculeResolver.from_graph(case['frag_string'], base).resolve()
        heavy, problems = M.collapse_h(aa)
        if problems or not M.same_molecule(heavy, truth):
            viol.append(V('c11.molecule_changed', f'{txt} -> {M.describe(heavy)}; expected {M.describe(truth)}'))
        # second use of the same graph object: still the same molecule
        cg, aa = MoleculeResolver.from_graph(case['frag_string'], base).resolve()
        heavy, problems = M.collapse_h(aa)
        if problems or not M.same_molecule(heavy, truth):
            viol.append(V('c11.molecule_changed_on_reuse', f'{txt}: resolving the same base graph object a second time -> {M.describe(heavy)}; expected {M.describe(truth)}'))
        # now one fragment-less node gets a real edge: must be rejected although the graph was resolved before
        v = case['virtual'][case['sub'] % len(case['virtual'])]
        nb = sorted(base[v])[0]
        base.edges[v, nb]['order'] = 1 + case['sub'] % 3
        for target in (base, cg):
            try:
                if target is cg:
                    cg.edges[v, nb]['order'] = base.edges[v, nb]['order']
                MoleculeResolver.from_graph(case['frag_string'], target).resolve()
                viol.append(V('c11.fragmentless_node_accepted_on_reuse', f'{txt}: after the graph had been resolved once, the edge {v}-{nb} of the fragment-less node was given order '
                              f'{base.edges[v, nb]["order"]} and the {"returned coarse graph" if target is cg else "same graph"} was resolved without error'))
            except SyntaxError:
                pass
    except Exception as err:
        viol.append(V('c11.exception.' + type(err).__name__, f'{txt} (graph reused) raised {type(err).__name__}: {err}'))
    contracts.clear()
    return {'violations': viol, 'nontrivial': True, 'sample': txt, 'cls': ('reuse', tuple(case['features']), case['nfrag'])}


def run(case):
    if case.get('reuse'):
        return run_reuse(case)
    contracts.clear()
    viol = []
    txt = MC.case_text(case)
    if case['fault']:
        try:
            MC.make_resolver(case).resolve()
            viol.append(V('c11.fragmentless_node_accepted', f'{txt}: a fragment-less node with an edge of order >= 1 was resolved'))
        except SyntaxError:
            pass
        except Exception as err:
            viol.append(V('c11.fragmentless_node_wrong_error', f'{txt}: raised {type(err).__name__}: {err} instead of SyntaxError'))
        contracts.clear()
        return {'violations': viol, 'nontrivial': True, 'cls': ('fault', tuple(case['features'])), 'sample': txt,
                'rejected': {'fragmentless_node_with_real_edge': 0 if viol else 1}}
    truth = MC.truth_from_json(case['truth'])
    res = MC.resolve_case(case)
    plain = MC.resolve_case(dict(case['plain'], frag_string=case['frag_string']))
    if res['error']:
        viol.append(V('c11.exception.' + res['error'].split(':')[0], f'{txt} raised {res["error"]}'))
    else:
        if res['problems'] or not M.same_molecule(res['heavy'], truth):
            viol.append(V('c11.molecule_changed', f'{txt} -> {M.describe(res["heavy"])}; without the virtual nodes/edges the molecule is {M.describe(truth)}'))
        want = {}
        tnodes = {n[0]: (n[1], n[3]) for n in case['truth']['nodes']}
        for name, atoms in case['frag_atoms'].items():
            want[name] = collections.Counter(tnodes[a] for a in atoms)
        got = owned(res['cg'], res['aa'])
        for name, ms in want.items():
            if got.get(name) != ms:
                viol.append(V('c11.mapping_changed', f'{txt}: coarse node {name} owns {dict(got.get(name, {}))}, its fragment has {dict(ms)}'))
                break
        for name, ms in got.items():
            if name not in want and ms:
                viol.append(V('c11.virtual_node_has_atoms', f'{txt}: fragment-less node {name} owns atoms {dict(ms)}'))
        if not plain['error'] and not M.same_molecule(plain['heavy'], res['heavy']):
            viol.append(V('c11.differs_from_plain', f'{txt} differs from the same input without virtual nodes'))
    contracts.clear()
    return {'violations': viol, 'nontrivial': True, 'sample': txt,
            'cls': (tuple(case['features']), case['nheavy'], case['nfrag'])}
