"""Shared case construction / execution for the molecule-based monitors (C01, C02, C03, C06, C09, C10, C11 ...)."""
import collections
import copy

import networkx as nx

from ..gen import mol as M
from ..gen import grammar as G


def truth_to_json(t):
    return {'nodes': [[n, d['element'], d['charge'], d['nh']] for n, d in t.nodes(data=True)],
            'edges': [[a, b, d['order']] for a, b, d in t.edges(data=True)]}


def truth_from_json(j):
    t = nx.Graph()
    for n, el, ch, nh in j['nodes']:
        t.add_node(n, element=el, charge=ch, nh=nh)
    for a, b, o in j['edges']:
        t.add_edge(a, b, order=o)
    return t


def cut_features(g, part, case):
    f = set()
    desc = case['desc']
    for a, b, lab, oo in case['cuts']:
        if g.edges[a, b]['order'] == 3:
            f.add('cut_triple')
        if g.edges[a, b]['order'] == 2:
            f.add('cut_double')
        if g.edges[a, b]['order'] == 1.5:
            f.add('cut_in_aromatic_ring')
        for x in (a, b):
            if g.nodes[x]['charge'] != 0:
                f.add('cut_at_charged_atom')
            if g.nodes[x].get('aromatic'):
                f.add('cut_at_aromatic_atom')
    if any(len(v) >= 2 for v in desc.values()):
        f.add('multi_desc_atom')
    if any(v >= 2 for v in case['cutcount'].values()):
        f.add('base_order_ge2')
    if len(case['members']) >= 10:
        f.add('ten_or_more_fragments')
    if any(len(m) >= 10 for m in case['members'].values()):
        f.add('fragment_with_ten_or_more_atoms')
    base = case['base']
    if base.number_of_edges() >= len(base) and len(base) > 0:
        f.add('base_ring')
    if base.number_of_edges() >= len(base) + 1:
        f.add('base_two_or_more_cycles')
    for name, toks in case['tokens'].items():
        prev = None
        for i, t in enumerate(toks):
            if t[0] == 'desc':
                if prev and prev[0] == 'ring':
                    f.add('desc_after_ring_digit')
                    if prev[1][0] in '=#-':
                        f.add('ringsym_digit_desc')
                nxt = toks[i + 1] if i + 1 < len(toks) else None
                if nxt and nxt[0] == 'ring':
                    f.add('desc_before_ring_digit')
                if t[1].startswith('['):
                    pass
                if i == 0:
                    f.add('leading_desc')
            if t[0] == 'ring' and '%' in t[1]:
                f.add('ring_pct_digit')
            prev = t
    return f


def random_cut_case(rng, max_heavy, kinds=('$', '><'), max_parts=6, mol_kw=None, render_opts=None, ctor=None, plain_names=False, allow_lower5=False, mode=None, implicit_biaryl=0.0):
    ringy = rng.random() < 0.35 or mode is not None
    if ringy:
        kw = dict(p_ring=0.9, p_arom=rng.choice([0.2, 0.6]))
        if mode is None and rng.random() < 0.25:
            # condensed aromatic systems (naphthalene ... tetracene skeletons), often cut through their rings
            kw = dict(p_ring=0.3, p_arom=0.95, p_fused=0.85)
            max_heavy = max(max_heavy, 14)
        elif mode in ('het5_lower', 'het5_lower_kept') or rng.random() < 0.3:
            # five-membered heteroaromatic skeletons in Kekule form; those with a free N-H also in lower-case spelling,
            # often cut through the ring
            kw = dict(p_ring=0.3, p_arom=0.3, p_het5=0.8, p_lower5=(0.6 if mode is None else 1.0) if allow_lower5 else 0.0)
        kw.update(mol_kw or {})
        for _ in range(30):
            g = M.gen_lower_exo_molecule(rng) if mode == 'lower_exo' else M.gen_molecule(rng, max_heavy=max(max_heavy, 8), **kw)
            if len(g) >= 5 and g.number_of_edges() >= len(g):
                break
        nparts = rng.randint(2, min(len(g), 4))
        keep = rng.random() < 0.7 or mode in ('het5_lower_kept', 'lower_exo')      # (kept: no cut runs through a ring)
        if not keep and rng.random() < 0.5:
            nparts = rng.randint(4, min(len(g), 9))      # ring systems spread over many fragments: base graphs with several cycles
        if render_opts is None:
            render_opts = {'start_on_ring_desc': 0.9, 'leading': rng.random() < 0.15,
                           'desc_pos': rng.choice(['after', 'mixed', 'before', None]),
                           'explicit_single': rng.choice([0.0, 0.1]), 'non_dfs_tree': rng.choice([0.0, 0.0, 0.5])}
    else:
        keep = False
        g = M.gen_molecule(rng, max_heavy=max_heavy, p_ring=rng.choice([0.25, 0.5]), **dict(dict(p_thio=0.3), **(mol_kw or {})))
        # now and then many small fragments: ten or more coarse nodes give two-digit keys, names F1 / F10 ...
        cap = max_parts if rng.random() < 0.85 else max(max_parts, 14)
        nparts = rng.randint(1, min(len(g), cap))
    part = M.partition(rng, g, k=nparts, keep_rings=keep)
    if ringy and mode not in ('het5_lower_kept', 'lower_exo') and len(g) <= 10 and g.number_of_edges() >= len(g) + 1 and rng.random() < 0.4:
        # every atom a fragment of its own: the base graph is the (poly)cyclic molecule graph itself,
        # so its spelling has nodes that close several rings at once
        part = {n: i for i, n in enumerate(g.nodes)}
    nparts = max(part.values()) + 1
    if implicit_biaryl and render_opts is not None:
        render_opts = dict(render_opts, implicit_biaryl=implicit_biaryl)
    case = M.build_case(rng, g, part, kinds=kinds, render_opts=render_opts or {'implicit_biaryl': implicit_biaryl, 'explicit_single': rng.choice([0.0, 0.1]), 'desc_after_branch': rng.choice([0.0, 0.5, 0.9]), 'desc_in_parens': rng.choice([0.0, 0.0, 0.3]), 'non_dfs_tree': rng.choice([0.0, 0.0, 0.5])})
    if case is None:
        return None
    ast, pre = M.base_to_ast(rng, case['base'])
    # charges annotated on base-graph nodes are properties of the coarse node; the atoms underneath keep what the fragment
    # says (own generator, seeded by the fragment texts, so that the main stream of cases is unchanged)
    import random as _r
    qrng = _r.Random('q' + str(sorted(case['frags'].items())))
    charged_nodes = False
    if qrng.random() < 0.15:
        for e_, _, _, _ in G._flat(ast):
            if qrng.random() < 0.4:
                e_['annot'] = qrng.choice(['q=1', 'q=-1', '1', 'q=2', '-1;0.5'])
                charged_nodes = True
    truth = M.truth_graph(g)
    atom_annotations = {}
    if rng.random() < 0.15:
        # per-atom annotations (weight, free keys) written into bracket atoms of the fragment texts, single-atom
        # fragments included; expected values come from the independent annotation model
        from ..gen import annot as A
        for name, toks in case['tokens'].items():
            new_toks = list(toks)
            atoms_ = [k for k, t in enumerate(toks) if t[0] == 'atom']
            for pos_, k in enumerate(atoms_):
                t = toks[k]
                d = g.nodes[t[2]]
                if rng.random() < 0.4 and not d.get('aromatic') and d['charge'] == 0:
                    w = rng.choice(['0.5', '0.25', '2', '1e-1', '0'])
                    text = rng.choice(['w=' + w, w, w + ';note=' + rng.choice(['a', 'b2', '7']), 'note=x;w=' + w, 'tag=' + rng.choice(['t1', 'q'])])
                    txt = t[1] if t[1].startswith('[') else M.atom_text(d, d['hcount'] if rng.random() < 0.5 else 0, bracket=True)
                    new_toks[k] = ('atom', txt[:-1] + ';' + text + ']', t[2])
                    exp = A.model('frag', text)
                    atom_annotations['%s|%d' % (name, pos_)] = {kk: vv for kk, vv in exp.items() if kk != 'chiral'}
            case['frags'][name] = ''.join('(' if x[0] == 'open' else ')' if x[0] == 'close' else x[1] for x in new_toks)
    items = list(case['frags'].items())
    rng.shuffle(items)
    decoy = None
    if rng.random() < 0.08:
        # a second, different definition under a name that is already defined earlier in the block: the first one counts
        decoy = (rng.choice(items)[0], rng.choice(['C', 'CC[$]', 'O[$zz]', 'N#C']))
    smiles = M.molecule_smiles(rng, g, opts={'implicit_biaryl': implicit_biaryl} if implicit_biaryl else None)
    ctor = ctor or rng.choice(['string', 'string', 'string', 'from_graph', 'from_fragment_dicts'])
    alt = [G.to_string(M.base_to_ast(rng, case['base'])[0]) for _ in range(2)] if len(case['base']) >= 3 else []
    base_nodes = list(case['base'].nodes)
    rng.shuffle(base_nodes)
    feats = cut_features(g, part, case)
    feats.add('ctor_' + ctor)
    if any(d.get('lower') for _, d in g.nodes(data=True)):
        # a ring the documented aromaticity definition does not call aromatic, nevertheless written in lower case: the
        # documentation asks for the Kekule form, the library accepts this spelling where it can kekulise the result
        feats.add('lower_case_kekule_ring')
    names = None
    if rng.random() < 0.3 and nparts <= len(NAME_POOL) and not plain_names:
        # fragment names as people write them: element-like, lower case, starting with a digit, prefixes of each other
        names = dict(zip(('F%d' % i for i in range(nparts)), rng.sample(NAME_POOL, nparts)))
        feats.add('diverse_fragment_names')
    if decoy:
        feats.add('second_definition_of_a_defined_name')
    if charged_nodes:
        feats.add('charged_base_graph_nodes')
    out = dict(kind='cut', base_ast=ast, base_string=G.to_string(ast),
                frag_string='{' + ','.join('#%s=%s' % kv for kv in items + ([decoy] if decoy else [])) + '}',
                base_graph={'nodes': [[n, case['base'].nodes[n]['fragname']] for n in base_nodes],
                            'edges': [[a, b, d['order']] for a, b, d in case['base'].edges(data=True)]},
                ctor=ctor, alt_base_strings=alt, single='{[#M]}.{#M=%s}' % smiles, smiles=smiles, truth=truth_to_json(truth),
                features=sorted(feats), nheavy=len(g), nfrag=nparts, ncuts=len(case['cuts']),
                frag_atoms={name: atoms for name, atoms in case['atom_orders'].items()},
                base_order=pre, atom_annotations=atom_annotations)
    if atom_annotations:
        out['features'] = sorted(set(out['features']) | {'annotated_fragment_atoms'} | ({'annotated_single_atom_fragment'} if any(len(case['atom_orders'][k.split('|')[0]]) == 1 for k in atom_annotations) else set()))
    if not atom_annotations and not decoy and not names:
        sib = descriptor_moved_sibling(g, part, case, items)
        if sib is not None:
            out['sibling'] = sib
            out['features'] = sorted(set(out['features']) | {'followed_by_the_same_text_with_a_descriptor_on_another_atom'})
    return rename_fragments(out, names) if names else out


def descriptor_moved_sibling(g, part, case, items):
    """A second input that differs from the case ONLY in the atom one single-bond descriptor sits on: same fragment names,
    same atoms in the same spelling, same descriptor texts.  It denotes another molecule (the cut bond now ends on the
    other atom); resolved right after the first one it must give that molecule.  Drawn with a generator of its own (seeded
    by the text) so that the main stream of cases is unchanged."""
    import random as _r
    srng = _r.Random(str(items))
    if srng.random() > 0.35:
        return None
    plain = lambda n: not g.nodes[n].get('aromatic') and not g.nodes[n].get('lower') and g.nodes[n]['charge'] == 0
    cand = []
    for (a, b, lab, oo) in case['cuts']:
        for x, y in ((a, b), (b, a)):
            if oo != 1 or not plain(x):
                continue
            for x2 in case['members'][part[x]]:
                if x2 != x and plain(x2) and g.nodes[x2]['hcount'] >= 1 and x2 not in case['desc']:
                    cand.append((x, y, lab, x2))
    srng.shuffle(cand)
    for x, y, lab, x2 in cand:
        name = 'F%d' % part[x]
        toks = list(case['tokens'][name])
        k = next((i for i, t in enumerate(toks) if t[0] == 'desc' and t[2] == x and t[3][1] == lab), None)
        ax = next((i for i, t in enumerate(toks) if t[0] == 'atom' and t[2] == x), None)
        if k is None or ax is None or k < ax or not toks[k][1].endswith(']') or not toks[k][1].startswith('['):
            continue        # leading descriptor or one with a bond symbol: leave those alone
        if k > 0 and toks[k - 1] == ('open',):
            continue        # descriptor written as a branch of its own
        tok = toks.pop(k)
        a2 = next(i for i, t in enumerate(toks) if t[0] == 'atom' and t[2] == x2)
        j = a2 + 1
        while j < len(toks) and toks[j][0] in ('ring', 'desc') and toks[j][2] == x2:
            j += 1
        toks.insert(j, ('desc', tok[1], x2, tok[3]))
        g2 = g.copy()
        attrs = dict(g2.edges[x, y])
        g2.remove_edge(x, y)
        if g2.has_edge(x2, y):
            continue
        g2.add_edge(x2, y, **attrs)
        hs = {n: M.hcount_for(g2.nodes[n]['element'], g2.nodes[n]['charge'], M.used(g2, n)) for n in (x, x2)}
        if None in hs.values() or not M.dime_safe(g2):
            continue
        for n, h in hs.items():
            g2.nodes[n]['hcount'] = h
        frags = dict(items)
        frags[name] = M.tokens_text(toks)
        return dict(frag_string='{' + ','.join('#%s=%s' % (nm, frags[nm]) for nm, _ in items) + '}', truth=truth_to_json(M.truth_graph(g2)),
                    moved=f'descriptor {tok[1]} of {name} from atom {x} to atom {x2}')
    return None



NAME_POOL = ['A', 'B', 'PEO', '2VP', '12', 'C', 'H', 'O', 'Cl', 'c', 'n', 'N1', 'b2', 'PS', 'PS1', 'OH', 'Me', 'X', 'Na', 'mon', 'x0', '0', 'S', 'Br']


def rename_fragments(case, names):
    """the same case with other fragment names (names: old -> new, injective)"""
    import re

    def sub(text):
        return re.sub(r'#(F\d+)(?=[=\];])', lambda m: '#' + names.get(m.group(1), m.group(1)), text)
    out = dict(case)
    out['base_string'] = sub(case['base_string'])
    out['frag_string'] = sub(case['frag_string'])
    out['alt_base_strings'] = [sub(a) for a in case.get('alt_base_strings', [])]
    ast = copy.deepcopy(case['base_ast'])
    for e, _, _, _ in G._flat(ast):
        e['name'] = names.get(e['name'], e['name'])
    out['base_ast'] = ast
    out['base_graph'] = {'nodes': [[n, names.get(nm, nm)] for n, nm in case['base_graph']['nodes']], 'edges': case['base_graph']['edges']}
    out['frag_atoms'] = {names.get(k, k): v for k, v in case['frag_atoms'].items()}
    out['atom_annotations'] = {names.get(k.split('|')[0], k.split('|')[0]) + '|' + k.split('|')[1]: v for k, v in case.get('atom_annotations', {}).items()}
    out['features'] = sorted(set(case['features']) | {'diverse_fragment_names'})
    return out


def check_atom_annotations(case, aa, prefix='c02'):
    """every fine atom shows the annotations WRITTEN on the fragment atom(s) it is a copy of (independent annotation model);
    a shared atom is a copy of two or more fragment atoms and shows what was written on any of them (the generator never writes
    two different values under one key); -> ([(clause, msg)], number of annotated atoms seen)"""
    want = case.get('atom_annotations') or {}
    out, seen = [], 0
    for n, d in aa.nodes(data=True):
        m = d.get('mapping') or []
        if not m:
            continue
        exps = [want.get('%s|%s' % (e[0], e[1])) for e in m]
        written = {}
        for x in exps:
            for k, v in (x or {}).items():
                if k == 'weight' and v == 1.0 and 'weight' in written:
                    continue
                if k == 'weight' and v == 1.0 and any((y or {}).get('weight', 1.0) != 1.0 for y in exps):
                    continue
                written[k] = v
        if not written:
            if d.get('element') != 'H' and d.get('weight', 1) != 1:
                out.append((prefix + '.annotation_on_unannotated_atom', f"atom {n} (copy of {m}) has weight {d.get('weight')!r} but no annotation was written on it"))
                break
            continue
        seen += 1
        bad = {k: (d.get(k, '<missing>'), v) for k, v in written.items() if d.get(k, '<missing>') != v}
        if bad:
            out.append((prefix + ('.shared_atom_annotation' if len(m) > 1 else '.copy_annotation'), f"atom {n} (copy of {m}): (found, written) {bad}"))
            break
    return out, seen


def case_text(case):
    if case.get('ctor', 'string') == 'from_graph':
        return f"from_graph(base nodes {case['base_graph']['nodes']} edges {case['base_graph']['edges']}, {case['frag_string']})"
    return f"{case['ctor'] if case.get('ctor') else 'string'}: {case['base_string']}.{case['frag_string']}" + (f" {case['kw']}" if case.get('kw') else '')


def make_resolver(case, on_dicts=None, **kw):
    import cgsmiles
    from cgsmiles import MoleculeResolver
    ctor = case.get('ctor', 'string')
    if ctor == 'string':
        return MoleculeResolver.from_string(case['base_string'] + '.' + case['frag_string'], **kw)
    if ctor == 'from_graph':
        base = nx.Graph()
        for n, name in case['base_graph']['nodes']:
            base.add_node(n, fragname=name)
        for a, b, o in case['base_graph']['edges']:
            base.add_edge(a, b, order=o)
        from .. import contracts as _c0
        if _c0.CONTEXT.get('base_graph_used_before') and case.get('virtual') and case['frag_string'].count('{') == 1:
            # history on the caller's graph OBJECT: first resolved with a fragment library in which the (later) fragment-less
            # nodes DO have a fragment - they are ordinary nodes joined by order-0 edges then -, afterwards with the library
            # of the case, in which they are virtual
            names_ = sorted({base.nodes[v]['fragname'] for v in case['virtual']})
            first_ = case['frag_string'][:-1] + ''.join(',#%s=%s' % (nm, 'CO' if kw.get('last_all_atom', True) else '[#X][#Y]') for nm in names_) + '}'
            try:
                MoleculeResolver.from_graph(first_, base, **kw).resolve()
                _c0.STATS['base_graph_objects_used_before'] += 1
                _c0.CONTEXT['first_use_succeeded'] = True
            except Exception:
                pass
        return MoleculeResolver.from_graph(case['frag_string'], base, **kw)
    if ctor == 'from_fragment_dicts':
        import re
        blocks = re.findall(r"\{[^\}]+\}", case['frag_string'])
        last_all_atom = kw.get('last_all_atom', True)
        dicts = []
        for i, blk in enumerate(blocks):
            dicts.append(cgsmiles.read_fragments(blk, all_atom=(i == len(blocks) - 1 and last_all_atom)))
        from .. import contracts as _c
        if _c.CONTEXT.get('fragment_keys_with_gaps') and not case.get('atom_annotations') and not any(
                'ez_isomer' in str(dd) for d_ in dicts for g_ in d_.values() for _, dd in g_.nodes(data=True)):
            # a caller's own fragment graphs need not be keyed 0..n-1 (a node was removed, atoms are numbered as in a
            # coordinate file): the same graphs under increasing keys with gaps
            how_ = _c.CONTEXT.get('fragment_keys_with_gaps')
            for d_ in dicts:
                for name_ in list(d_):
                    if how_ == 'shuffled':
                        # ... or the same keys, but the nodes were not inserted in increasing key order (a graph built
                        # from an edge list)
                        import random as _r
                        old_ = d_[name_]
                        order_ = list(old_.nodes)
                        _r.Random(len(order_) * 7 + len(name_)).shuffle(order_)
                        new_ = nx.Graph(**old_.graph)
                        for k_ in order_:
                            new_.add_node(k_, **old_.nodes[k_])
                        new_.add_edges_from((a_, b_, dict(e_)) for a_, b_, e_ in old_.edges(data=True))
                        d_[name_] = new_
                    else:
                        d_[name_] = nx.relabel_nodes(d_[name_], {k: 2 * k + 3 for k in d_[name_].nodes}, copy=True)
        if on_dicts:
            on_dicts(dicts)
        return MoleculeResolver.from_fragment_dicts(case['base_string'], dicts, **kw)
    raise ValueError(ctor)


def resolve_case(case, **kw):
    try:
        resolver = make_resolver(case, **kw)
        cg, aa = resolver.resolve_all()
    except Exception as err:
        return dict(error=f'{type(err).__name__}: {err}', heavy=None, problems=[], cg=None, aa=None)
    heavy, problems = M.collapse_h(aa)
    return dict(error=None, heavy=heavy, problems=problems, cg=cg, aa=aa)


def resolve_single(string):
    from cgsmiles import MoleculeResolver
    try:
        cg, aa = MoleculeResolver.from_string(string).resolve()
    except Exception as err:
        return dict(error=f'{type(err).__name__}: {err}', heavy=None, problems=[], cg=None, aa=None)
    heavy, problems = M.collapse_h(aa)
    return dict(error=None, heavy=heavy, problems=problems, cg=cg, aa=aa)


# ---------------------------------------------------------------------------------------------
# shared atoms

def kinds_unambiguous_without_labels(case):
    """two fragments whose descriptors are all of different kinds: the label-insensitive convention
    (legacy=False) then has exactly one way to pair them, so the result is still determined"""
    if len(case['members']) != 2:
        return False
    for i, mem in case['members'].items():
        kinds = [x[0] for n in mem for x in case['desc'].get(n, [])]
        directed = [k for k in kinds if k in '<>']
        if kinds.count('$') > 1 or kinds.count('!') > 1 or len(directed) > 1:
            return False
    return True


def random_shared_case(rng, max_heavy, p_share=0.6, ctor=None, label_insensitive=False, mol_kw=None, annotate=False):
    """-> (shared case, disjoint case) for the same molecule, partition and rng stream"""
    ringy = rng.random() < 0.4
    if ringy:
        g = M.gen_molecule(rng, max_heavy=max(max_heavy, 8), p_ring=0.8, p_arom=rng.choice([0.3, 0.7]), **(mol_kw or {}))
    else:
        g = M.gen_molecule(rng, max_heavy=max_heavy, **(mol_kw or {}))
    if len(g) < 2:
        return None
    force = ()
    star = rng.random() < 0.2
    part = None
    if star:
        # hub: an atom whose neighbours all end up in different fragments and which is shared into each
        hubs = [n for n in g if g.degree(n) >= 3]
        if hubs:
            hub = rng.choice(hubs)
            rest = g.copy()
            rest.remove_node(hub)
            comps = list(nx.connected_components(rest))
            if len(comps) >= 3:
                part = {}
                for i, comp in enumerate(comps):
                    for n in comp:
                        part[n] = i
                part[hub] = rng.randrange(len(comps)) if rng.random() < 0.5 else len(comps)
                force = (hub,)
    if label_insensitive:
        part = M.partition(rng, g, k=2)
        force = ()
    if part is None:
        nparts = rng.randint(2, min(len(g), 5))
        part = M.partition(rng, g, k=nparts)
    nparts = max(part.values()) + 1
    case = M.build_case_shared(rng, g, part, p_share=p_share, force_atoms=force)
    if case is None or not case['shared']:
        return None
    dis = M.build_case(rng, g, part)
    if dis is None:
        return None
    if label_insensitive and not (kinds_unambiguous_without_labels(case) and kinds_unambiguous_without_labels(dis)):
        return None
    truth = M.truth_graph(g)
    explicit_h = False
    if annotate and rng.random() < 0.35:
        # hydrogens written out explicitly ([H], [2H], [H;w=0.5]) - on at most one of the copies of a shared atom
        gx_ = case['gx']
        origin_ = case['origin']
        copies = collections.defaultdict(list)
        for n_ in gx_:
            copies[origin_[n_]].append(n_)
        skip = set()
        for o_, cs in copies.items():
            if len(cs) > 1:
                keep_ = rng.choice(cs)
                skip |= {c_ for c_ in cs if c_ != keep_}
        for name in list(case['tokens']):
            toks_ = M.explicit_hydrogen_tokens(rng, gx_, case['tokens'][name], p=0.5, skip=skip)
            if len(toks_) != len(case['tokens'][name]):
                explicit_h = True
            case['tokens'][name] = toks_
            case['frags'][name] = M.tokens_text(toks_)
    atom_annotations = {}
    if annotate and rng.random() < 0.5:
        # annotations on atoms of the fragments WITH shared atoms; the two copies of a shared atom may each carry some:
        # free keys under different names, a weight on one copy only or the same weight on both
        from ..gen import annot as A
        gx_ = case['gx']
        origin_ = case['origin']
        weight_of = {}
        for name, toks in case['tokens'].items():
            new_toks = list(toks)
            atoms_ = [k for k, t in enumerate(toks) if t[0] == 'atom']
            for pos_, k in enumerate(atoms_):
                t = toks[k]
                if isinstance(t[2], tuple):
                    continue            # an explicitly written hydrogen: counted as an atom of the text, not annotated here
                d = gx_.nodes[t[2]]
                is_shared = any(x[0] == '!' for x in case['desc'].get(t[2], []))
                if rng.random() < (0.8 if is_shared else 0.25) and not d.get('aromatic') and d['charge'] == 0:
                    o_ = origin_[t[2]]
                    w = weight_of.get(o_) or rng.choice(['0.5', '0.25', '2', '1e-1'])
                    key_ = 'note' if o_ == t[2] else 't' + name        # one key name per copy: never two values under one key
                    text = rng.choice(['w=' + w, w + ';%s=%s' % (key_, rng.choice(['a', 'b2', '7'])), '%s=x' % key_, '%s=q;w=%s' % (key_, w)])
                    if 'w=' in text or text[0].isdigit():
                        weight_of[o_] = w
                    txt = t[1] if t[1].startswith('[') else M.atom_text(d, d['hcount'] if rng.random() < 0.5 else 0, bracket=True)
                    new_toks[k] = ('atom', txt[:-1] + ';' + text + ']', t[2])
                    exp = A.model('frag', text)
                    atom_annotations['%s|%d' % (name, pos_)] = {kk: vv for kk, vv in exp.items() if kk != 'chiral'}
            case['frags'][name] = ''.join('(' if x[0] == 'open' else ')' if x[0] == 'close' else x[1] for x in new_toks)
    out = []
    for c in (case, dis):
        ast, pre = M.base_to_ast(rng, c['base'])
        items = list(c['frags'].items())
        rng.shuffle(items)
        nodes = list(c['base'].nodes)
        rng.shuffle(nodes)
        out.append(dict(base_string=G.to_string(ast), frag_string='{' + ','.join('#%s=%s' % kv for kv in items) + '}',
                        base_order=pre, ctor=ctor or rng.choice(['string', 'string', 'from_graph', 'from_fragment_dicts']),
                        base_graph={'nodes': [[n, c['base'].nodes[n]['fragname']] for n in nodes],
                                    'edges': [[a, b, d['order']] for a, b, d in c['base'].edges(data=True)]}))
    gx = case['gx']
    feats = set()
    nshare = collections.Counter()
    for b, clone in case['shared']:
        nshare[b] += 1
        if gx.nodes[b].get('aromatic'):
            feats.add('shared_aromatic_atom')
        if len(case['desc'].get(b, [])) + 0 > sum(1 for x in case['desc'].get(b, []) if x[0] == '!'):
            feats.add('shared_atom_with_ordinary_desc')
        if gx.nodes[b]['charge'] != 0:
            feats.add('shared_charged_atom')
    if any(v >= 2 for v in nshare.values()):
        feats.add('atom_shared_3plus_ways')
    if any(v >= 3 for v in nshare.values()):
        feats.add('atom_shared_4plus_ways')
    if len(case['shared']) >= 2:
        feats.add('several_shared_atoms')
    for i, mem in case['members'].items():
        if len(mem) == 1 and any(x[0] == '!' for x in case['desc'].get(mem[0], [])):
            feats.add('fragment_is_only_a_shared_atom')
        if sum(1 for n in mem if any(x[0] == '!' for x in case['desc'].get(n, []))) >= 2:
            feats.add('several_shared_atoms_in_one_fragment')
    if any(v >= 2 for v in case['cutcount'].values()):
        feats.add('base_order_ge2')
    smiles = M.molecule_smiles(rng, g)
    origin = case['origin']
    part_x = {n: [k for k, mem in case['members'].items() if n in mem][0] for n in gx}
    membership = collections.defaultdict(set)
    for n in gx:
        membership[origin[n]].add(part_x[n])
    res = dict(kind='shared', shared=out[0], disjoint=out[1], truth=truth_to_json(truth), smiles=smiles,
               frag_atoms={name: [origin[a] for a in atoms] for name, atoms in case['atom_orders'].items()},
               membership={str(k): sorted(v) for k, v in membership.items()},
               single='{[#M]}.{#M=%s}' % smiles, nshared=len(case['shared']), natoms_frag=case['natoms_frag'],
               nheavy=len(g), nfrag=nparts, features=sorted(feats),
               base_string=out[0]['base_string'], frag_string=out[0]['frag_string'], ctor='string',
               legacy=not label_insensitive, atom_annotations=atom_annotations)
    if atom_annotations:
        res['features'] = sorted(set(res['features']) | {'annotated_fragment_atoms', 'annotations_on_shared_atoms'})
    if explicit_h:
        res['features'] = sorted(set(res['features']) | {'explicit_hydrogens_in_fragments_with_shared_atoms'})
    if label_insensitive:
        res['features'] = sorted(set(res['features']) | {'label_insensitive_convention'})
    return res


# ---------------------------------------------------------------------------------------------
# virtual nodes / zero-order edges

def add_virtual(rng, case, n_virtual=None, n_zero_edges=None, order=0):
    """return a copy of a cut case whose base graph has fragment-less nodes attached by order-0 edges
    and extra order-0 edges between real nodes; positions (first/middle/last) are recorded as features"""
    base = nx.Graph()
    for n, name in case['base_graph']['nodes']:
        base.add_node(n, fragname=name)
    for a, b, o in case['base_graph']['edges']:
        base.add_edge(a, b, order=o)
    real = list(base.nodes)
    nv = n_virtual if n_virtual is not None else rng.randint(1, 3)
    nz = n_zero_edges if n_zero_edges is not None else rng.choice([0, 0, 1, 2])
    nxt = max(real) + 1
    virt = []
    same_name = rng.random() < 0.4          # several fragment-less nodes may carry the same name
    faulty = rng.randrange(nv) if order else None   # fault variant: exactly one of them has a real edge
    str_keys = case.get('ctor') == 'from_graph' and rng.random() < 0.5     # a hand-made graph may key its virtual sites by name
    for i in range(nv):
        v = ('VS%d' % i) if str_keys else nxt
        nxt += 1
        base.add_node(v, fragname='V0' if same_name else 'V%d' % i)
        targets = rng.sample(real + virt, rng.randint(1, min(3, len(real) + len(virt))))
        for j, t in enumerate(targets):
            o = 0
            if order and i == faulty and (j == 0 or rng.random() < 0.5):
                o = order        # one real edge is enough, the others may be virtual edges
            base.add_edge(v, t, order=o)
        virt.append(v)
    for _ in range(nz):
        if len(real) >= 2:
            a, b = rng.sample(real, 2)
            if not base.has_edge(a, b):
                base.add_edge(a, b, order=0)
    feats = set(case['features'])
    real_edges = [(a, b) for a, b, d in base.edges(data=True) if d['order'] >= 1 and a in real and b in real]
    if real_edges and not order and rng.random() < 0.2:
        # a base edge that asks for one bond more than the fragments have descriptors for: the surplus is tolerated
        # silently and must not be carried over to another edge (an order-0 edge in particular)
        a, b = rng.choice(real_edges)
        base.edges[a, b]['order'] += 1
        feats.add('surplus_edge_order')
    pos = rng.choice(['first', 'any', 'any', 'last'])
    start = rng.choice(virt) if pos == 'first' else None
    ast, pre = M.base_to_ast(rng, base, start=start)
    vi = [pre.index(v) for v in virt]
    if 0 in vi:
        feats.add('virtual_first')
    if len(pre) - 1 in vi:
        feats.add('virtual_last')
    if any(0 < i < len(pre) - 1 for i in vi):
        feats.add('virtual_middle')
    if nv > 1:
        feats.add('several_virtual')
        if same_name:
            feats.add('virtual_nodes_share_a_name')
    if nz:
        feats.add('zero_edge_between_real')
    if any(base.degree(v) > 1 for v in virt):
        feats.add('virtual_ring_bond')
    nodes = list(base.nodes)
    rng.shuffle(nodes)
    out = dict(case)
    out.update(kind='virtual', base_ast=ast, base_string=G.to_string(ast), base_order=pre,
               base_graph={'nodes': [[n, base.nodes[n]['fragname']] for n in nodes],
                           'edges': [[a, b, d['order']] for a, b, d in base.edges(data=True)]},
               features=sorted(feats), virtual=virt, plain=dict(base_string=case['base_string'], frag_string=case['frag_string'],
                                                                 base_graph=case['base_graph'], ctor=case['ctor']))
    return out


# ---------------------------------------------------------------------------------------------
# multi-level hierarchies

def share_label_on_a_bead(rng, desc, part, p=0.3):
    """One bead with several '$' cuts of equal order that lead into DIFFERENT neighbouring fragments may carry the same
    label on all of them ('[$a][#X][$a]'): every neighbouring fragment still finds exactly one partner.  desc: node ->
    [(kind, label, order)]; rewritten in place; -> True if something was shared"""
    owner = {}
    for n, lst in desc.items():
        for (k, lab, o) in lst:
            owner.setdefault(lab, []).append((n, k, o))
    did = False
    # fragments that are joined by some cut: two of THEM must never both learn the common label (they would pair up)
    joined = {frozenset((part[v[0][0]], part[v[1][0]])) for v in owner.values() if len(v) == 2}
    for x, lst in list(desc.items()):
        mine = [(k, lab, o) for (k, lab, o) in lst if k == '$' and len(owner.get(lab, [])) == 2]
        groups = {}
        for (k, lab, o) in mine:
            other = [n for (n, _, _) in owner[lab] if n != x]
            if len(other) == 1 and part[other[0]] != part[x]:
                groups.setdefault(o, []).append((lab, other[0]))
        for o, cand in groups.items():
            seen_parts, keep = set(), []
            for lab, other in cand:
                if part[other] not in seen_parts and not any(frozenset((part[other], q)) in joined for q in seen_parts):
                    seen_parts.add(part[other])
                    keep.append((lab, other))
            if len(keep) >= 2 and rng.random() < p:
                first = keep[0][0]
                for lab, other in keep[1:]:
                    # the partner fragment must not already know the common label
                    if any(l2 == first for n2, l in desc.items() if part[n2] == part[other] for (_, l2, _) in l):
                        continue
                    desc[x] = [(k, first if l == lab else l, oo) for (k, l, oo) in desc[x]]
                    desc[other] = [(k, first if l == lab else l, oo) for (k, l, oo) in desc[other]]
                    did = True
                if did:
                    return True      # one bead per fragment set: a second sharing could meet the first one's label
    return did


def group_levels(rng, base, nlevels, p_share=0.0):
    """base: nx graph, nodes named by 'fragname', edge 'order'.  Group bottom-up into nlevels
    intermediate levels; with p_share an inter-group connection is made by SHARING one end node
    (squash operator at a coarse level) instead of a descriptor pair.
    -> (top graph, [fragment blocks top-down as {name: text}], used_sharing) or None"""
    cur = base
    blocks = []
    labels = M.label_pool(rng)
    shared_levels = 0
    for lvl in range(1, nlevels + 1):
        if len(cur) < 1:
            return None
        k = rng.randint(1, max(1, len(cur) - (1 if len(cur) > 1 else 0)))
        part = M.partition(rng, cur, k=k)
        ngroups = max(part.values()) + 1
        work = cur.copy()
        wpart = dict(part)
        desc = {}
        between = collections.Counter()
        nxt_key = max(work.nodes) + 1
        used_share = False
        cloned_from = set()
        for a, b, d in list(cur.edges(data=True)):
            if part[a] == part[b] or not work.has_edge(a, b):
                continue
            if p_share and rng.random() < p_share and a not in cloned_from and b not in cloned_from:
                # share node b with the group of a: a clone of b joins a's group, bonded to all of b's
                # neighbours there, and carries the squash pair with b
                if rng.random() < 0.5:
                    a, b = b, a
                P = wpart[a]
                nbrs = [x for x in work[b] if wpart[x] == P and x in cur]
                clone = nxt_key
                nxt_key += 1
                work.add_node(clone, **dict(cur.nodes[b]))
                wpart[clone] = P
                for x in nbrs:
                    work.add_edge(x, clone, order=work.edges[x, b]['order'])
                    work.remove_edge(x, b)
                lab = next(labels)
                desc.setdefault(clone, []).append(('!', lab, 1))
                desc.setdefault(b, []).append(('!', lab, 1))
                between[frozenset((P, wpart[b]))] += 1
                cloned_from.add(b)
                used_share = True
        for a, b, d in work.edges(data=True):
            if wpart[a] != wpart[b]:
                lab = next(labels)
                kind = rng.choice(['$', '><'])
                if kind == '$':
                    ka = kb = '$'
                else:
                    ka, kb = rng.choice([('>', '<'), ('<', '>')])
                o = d['order']
                desc.setdefault(a, []).append((ka, lab, o))
                desc.setdefault(b, []).append((kb, lab, o))
                between[frozenset((wpart[a], wpart[b]))] += 1
        if any(v > 4 for v in between.values()):
            return None
        share_label_on_a_bead(rng, desc, wpart)
        for n in desc:
            rng.shuffle(desc[n])
        frs = {}
        for gi in range(ngroups):
            mem = [n for n in work if wpart[n] == gi]
            if not nx.is_connected(work.subgraph(mem)):
                return None
            text, _pre = M.render_coarse_fragment(rng, work, mem, desc, name_attr='fragname')
            frs['L%dG%d' % (lvl, gi)] = text
        nxt = nx.Graph()
        order = list(range(ngroups))
        rng.shuffle(order)
        for gi in order:
            nxt.add_node(gi, fragname='L%dG%d' % (lvl, gi))
        for key, v in between.items():
            a, b = tuple(key)
            nxt.add_edge(a, b, order=v)
        if not nx.is_connected(nxt):
            return None
        blocks.insert(0, frs)
        cur = nxt
        shared_levels += used_share
    return cur, blocks, shared_levels


def block_text(rng, frs):
    items = list(frs.items())
    rng.shuffle(items)
    return '{' + ','.join('#%s=%s' % kv for kv in items) + '}'


def random_multilevel_case(rng, max_heavy, nlevels=None, coarse_last=False):
    import re
    nlevels = nlevels or rng.randint(1, 3)
    bottom_shared = False
    if coarse_last:
        base_case = random_coarse_cut_case(rng, rng.randint(3, 14))
    elif rng.random() < 0.25:
        sc = random_shared_case(rng, max_heavy, ctor='string')
        base_case = None
        if sc is not None:
            base_case = dict(sc['shared'], truth=sc['truth'], features=sc['features'], nfrag=sc['nfrag'], nheavy=sc['nheavy'], kind='shared')
            bottom_shared = True
    else:
        base_case = random_cut_case(rng, max_heavy, ctor='string', max_parts=7)
    if base_case is None or base_case['nfrag'] < 2:
        return None
    base = nx.Graph()
    for n, name in base_case['base_graph']['nodes']:
        base.add_node(n, fragname=name)
    for a, b, o in base_case['base_graph']['edges']:
        base.add_edge(a, b, order=o)
    res = group_levels(rng, base, nlevels, p_share=rng.choice([0.0, 0.0, 0.4]))
    if res is None:
        return None
    top, blocks, shared_levels = res
    ast, pre = M.base_to_ast(rng, top)
    multi = G.to_string(ast) + '.' + '.'.join(block_text(rng, b) for b in blocks) + '.' + base_case['frag_string']
    feats = set(base_case['features']) | {'levels_%d' % (nlevels + 1), 'coarse_last' if coarse_last else 'atomistic_last'}
    if shared_levels:
        feats.add('squash_at_coarse_level')
    if shared_levels + bottom_shared >= 2:
        feats.add('squash_at_two_levels')
    # the same fragment name may be defined at several levels with different content (a bead named like its parent)
    if rng.random() < 0.35:
        lower = sorted(set(re.findall(r'#(F\d+)=', base_case['frag_string'])))   # a decoy second definition repeats a name
        upper = [name for b in blocks for name in b]
        rng.shuffle(upper)
        rng.shuffle(lower)
        for up, low in zip(upper[:rng.randint(1, 2)], lower):
            multi = re.sub(r'\b%s\b' % up, low, multi)
            feats.add('name_reused_across_levels')
    out = dict(base_case)
    out.update(kind='multilevel', multi_string=multi, nlevels=nlevels + 1, coarse_last=coarse_last,
               two_level=base_case['base_string'] + '.' + base_case['frag_string'], features=sorted(feats))
    return out


# ---------------------------------------------------------------------------------------------
# coarse last level

ION_STYLE_NAMES = ['NA+', 'CL-', "C1'", 'N-ter', 'CO-', "C5'"]


def random_coarse_cut_case(rng, n):
    # bead names as force fields have them for ions, termini and nucleotides (+ - ') in one case out of four
    ion_names = rng.random() < 0.25
    g = M.gen_coarse_graph(rng, n, names=M.CG_NAMES + ION_STYLE_NAMES * 2) if ion_names else M.gen_coarse_graph(rng, n)
    ion_names = ion_names and any(d['name'] in ION_STYLE_NAMES for _, d in g.nodes(data=True))
    weighted = rng.random() < 0.3
    if weighted:
        # weights written on beads of the coarse fragments (positional or by keyword, optionally with a free key)
        for x in g.nodes:
            if rng.random() < 0.4:
                txt, val = rng.choice([('0.5', 0.5), ('w=0.25', 0.25), ('2', 2.0), ('w=0', 0.0), ('note=a;w=1e-1', 0.1), ('0.75;tag=q', 0.75)])
                g.nodes[x]['annot'], g.nodes[x]['weight'] = txt, val
    nparts = rng.randint(1, min(n, 5))
    part = M.partition(rng, g, k=nparts)
    labels = M.label_pool(rng)
    desc, cutcount = {}, collections.Counter()
    for a, b, d in g.edges(data=True):
        if part[a] != part[b]:
            lab = next(labels)
            kind = rng.choice(['$', '><'])
            if kind == '$':
                ka = kb = '$'
            else:
                ka, kb = rng.choice([('>', '<'), ('<', '>')])
            desc.setdefault(a, []).append((ka, lab, d['order']))
            desc.setdefault(b, []).append((kb, lab, d['order']))
            cutcount[frozenset((part[a], part[b]))] += 1
    if any(v > 4 for v in cutcount.values()):
        return None
    shared_label = share_label_on_a_bead(rng, desc, part)
    for n_ in desc:
        rng.shuffle(desc[n_])
    frags = {}
    for i in range(nparts):
        mem = [x for x in g if part[x] == i]
        frags['F%d' % i], _ = M.render_coarse_fragment(rng, g, mem, desc)
    base = nx.Graph()
    order = list(range(nparts))
    rng.shuffle(order)
    for i in order:
        base.add_node(i, fragname='F%d' % i)
    for key, v in cutcount.items():
        a, b = tuple(key)
        base.add_edge(a, b, order=v)
    ast, pre = M.base_to_ast(rng, base)
    items = list(frags.items())
    rng.shuffle(items)
    nodes = list(base.nodes)
    rng.shuffle(nodes)
    return dict(kind='coarse_cut', base_string=G.to_string(ast), base_order=pre,
                frag_string='{' + ','.join('#%s=%s' % kv for kv in items) + '}',
                base_graph={'nodes': [[x, base.nodes[x]['fragname']] for x in nodes],
                            'edges': [[a, b, d['order']] for a, b, d in base.edges(data=True)]},
                ctor=rng.choice(['string', 'string', 'from_graph', 'from_fragment_dicts']), coarse=True,
                truth={'nodes': [[x, d['name'], d.get('weight', 1.0)] for x, d in g.nodes(data=True)],
                       'edges': [[a, b, d['order']] for a, b, d in g.edges(data=True)]},
                features=sorted({'coarse_last'} | ({'weights_on_beads_of_coarse_fragments'} if weighted else set()) | ({'base_order_ge2'} if any(v >= 2 for v in cutcount.values()) else set())
                                | ({'ion_style_bead_names'} if ion_names else set()) | ({'one_bead_carries_the_same_descriptor_twice'} if shared_label else set())),
                nheavy=n, nfrag=nparts, ncuts=sum(cutcount.values()))


def coarse_truth(j):
    t = nx.Graph()
    for ent in j['nodes']:
        t.add_node(ent[0], name=(ent[1], float(ent[2]) if len(ent) > 2 else 1.0))
    for a, b, o in j['edges']:
        t.add_edge(a, b, order=o)
    return t


def coarse_result_matches(aa, truth):
    r = nx.Graph()
    for n, d in aa.nodes(data=True):
        r.add_node(n, name=(d.get('atomname'), float(d.get('weight', 1.0)) if isinstance(d.get('weight', 1.0), (int, float)) else d.get('weight')))
    for a, b, d in aa.edges(data=True):
        r.add_edge(a, b, order=d.get('order'))
    if len(r) != len(truth) or r.number_of_edges() != truth.number_of_edges():
        return False
    return nx.is_isomorphic(r, truth, node_match=lambda x, y: x['name'] == y['name'], edge_match=lambda x, y: x['order'] == y['order'])


# ---------------------------------------------------------------------------------------------
# mixed resolver workload + executor (C02, C03, C09, C12 numbering, C15 references)

def random_label_insensitive_cut_case(rng, max_heavy):
    """two fragments joined by descriptors of DIFFERENT labels but matching kinds, at most one pair per kind: only the
    label-insensitive convention (legacy=False) joins them, and it has exactly one way to do so"""
    import re
    for _ in range(60):
        c = random_cut_case(rng, max_heavy, plain_names=True)
        if c is None or c['nfrag'] != 2:
            continue
        items = c['frag_string'][1:-1].split(',')
        ok = True
        for it in items:
            kinds = re.findall(r'\[([$<>!])[^\]]*\]', it)
            if kinds.count('$') > 1 or sum(1 for k in kinds if k in '<>') > 1 or '!' in kinds:
                ok = False
        if not ok or len(items) != 2:
            continue
        items[1] = re.sub(r'\[([$<>])([^\]]*)\]', lambda m: '[' + m.group(1) + m.group(2) + 'z]', items[1])
        out = dict(c, frag_string='{' + ','.join(items) + '}', kw={'legacy': False}, alt_base_strings=[],
                   features=sorted(set(c['features']) | {'label_insensitive_convention', 'labels_differ_across_the_cut'}))
        return out
    return None


def resolver_workload(rng, n, max_heavy=(3, 6, 10, 16)):
    from ..gen import ambig
    made = 0
    while made < n:
        r = rng.random()
        case = None
        if r < 0.04:
            case = random_cut_case(rng, rng.choice(max_heavy), allow_lower5=True, mode='het5_lower')
        elif r < 0.27:
            case = random_cut_case(rng, rng.choice(max_heavy), allow_lower5=True)
        elif r < 0.30:
            case = random_label_insensitive_cut_case(rng, rng.choice(max_heavy[:3]))
        elif r < 0.45:
            case = random_shared_case(rng, rng.choice(max_heavy), annotate=True)
        elif r < 0.55:
            c = random_cut_case(rng, rng.choice(max_heavy))
            case = add_virtual(rng, c) if c is not None else None
        elif r < 0.65:
            case = random_multilevel_case(rng, rng.choice(max_heavy), coarse_last=rng.random() < 0.3)
        elif r < 0.72:
            case = random_coarse_cut_case(rng, rng.randint(2, 12))
        elif r < 0.78:
            case = random_marked_cut_case(rng)
        elif r < 0.82:
            case = random_periodic_case(rng)
        else:
            case = ambig.random_case(rng)
        if case is None:
            continue
        made += 1
        yield case


# ---------------------------------------------------------------------------------------------
# periodic copolymers: the SAME fragment names recur along a chain, every junction type has its own label

PERIODIC_BODIES = ['C{l}C{r}', 'C{l}(C)C{r}', 'O{l}CC{r}', 'c1{l}ccc{r}cc1', 'C{l}(=O)N{r}', 'C{l}{r}', 'N{l}(C)C{r}', 'C{l}(F)C{r}(Cl)',
                   'C{l}C(C{r})O', 'C{l}C=CC{r}']


def random_periodic_case(rng):
    """A linear chain whose units repeat with period 3-5 (A B C A B C ...): the same ordered pair of fragment names occurs
    on several base edges, each unit carries one dedicated descriptor per neighbour, junction labels are unique per
    junction type.  Optionally ONE base edge asks for a bond more than its two units have descriptors for; that surplus
    is tolerated and must stay local: every other base edge still gets exactly its own bonds."""
    period = rng.randint(3, 5)
    n = rng.randint(period + 1, 4 * period)
    names = rng.sample(['A', 'B', 'C', 'D', 'PEO', 'PS', 'X1', 'mon'], period) if rng.random() < 0.5 else ['F%d' % i for i in range(period)]
    labels = ['j%d' % i if rng.random() < 0.7 else 'ABCDEFG'[i] for i in range(period)]
    kinds = [rng.choice(['$', '$', '><']) for _ in range(period)]
    bodies = [rng.choice(PERIODIC_BODIES) for _ in range(period)]
    frs = {}
    for i in range(period):
        left_j, right_j = (i - 1) % period, i
        l = '[%s%s]' % ('$' if kinds[left_j] == '$' else '<', labels[left_j])
        r = '[%s%s]' % ('$' if kinds[right_j] == '$' else '>', labels[right_j])
        frs[names[i]] = bodies[i].format(l=l, r=r)
    base = nx.Graph()
    for i in range(n):
        base.add_node(i, fragname=names[i % period])
    for i in range(n - 1):
        base.add_edge(i, i + 1, order=1)
    feats = {'periodic_copolymer', 'same_name_pair_on_several_base_edges', 'ctor_string'}
    if rng.random() < 0.6:
        i = rng.randrange(0, max(1, n - period - 1))
        base.edges[i, i + 1]['order'] = 2
        feats.add('surplus_edge_order')
    ast, pre = M.base_to_ast(rng, base)
    items = list(frs.items())
    rng.shuffle(items)
    nodes = list(base.nodes)
    rng.shuffle(nodes)
    ctor = rng.choice(['string', 'string', 'from_graph', 'from_fragment_dicts'])
    feats.discard('ctor_string')
    feats.add('ctor_' + ctor)
    return dict(kind='cut', ctor=ctor, base_ast=ast, base_string=G.to_string(ast), base_order=pre,
                frag_string='{' + ','.join('#%s=%s' % kv for kv in items) + '}',
                base_graph={'nodes': [[x, base.nodes[x]['fragname']] for x in nodes],
                            'edges': [[a, b, d['order']] for a, b, d in base.edges(data=True)]},
                features=sorted(feats), nheavy=n * 3, nfrag=n, ncuts=n - 1)


EXPECTED_REJECTION = 'Likely you are writing an aromatic molecule'


def _given_templates(dicts):
    """snapshot of the fragment graphs a caller is about to hand to from_fragment_dicts (the contract's reference)"""
    from .. import contracts
    contracts.CONTEXT['given_templates'] = [{k: contracts.snap_graph(g) for k, g in d.items()} for d in dicts]


def ambig_resolver(case, on_dicts=None):
    """polymer-style input through one of the three constructors, with both keywords passed on"""
    import cgsmiles
    from cgsmiles import MoleculeResolver
    kw = dict(last_all_atom=not case['coarse'], legacy=case['legacy'])
    ctor = case.get('ctor', 'string')
    if ctor == 'string':
        return MoleculeResolver.from_string(case['string'], **kw)
    cut = case['string'].index('}.{')
    base, frag = case['string'][:cut + 1], case['string'][cut + 2:]
    if ctor == 'from_graph':
        return MoleculeResolver.from_graph(frag, cgsmiles.read_cgsmiles(base), **kw)
    dicts = [cgsmiles.read_fragments(frag, all_atom=not case['coarse'])]
    if on_dicts:
        on_dicts(dicts)
    return MoleculeResolver.from_fragment_dicts(base, dicts, **kw)


def execute(case):
    """resolve every level of a case; -> dict(error, steps=[(cg, aa)], rejected)"""
    from cgsmiles import MoleculeResolver
    kind = case['kind']
    from .. import contracts
    if kind == 'ambig':
        req = dict(requested_last_all_atom=not case['coarse'], requested_legacy=case['legacy'])
    elif kind == 'multilevel':
        req = dict(requested_last_all_atom=not case.get('coarse_last', False), requested_legacy=True)
    elif kind == 'coarse_cut':
        req = dict(requested_last_all_atom=False, requested_legacy=True)
    else:
        req = dict(requested_last_all_atom=True, requested_legacy=case.get('kw', {}).get('legacy', True))
    req['uncontrolled_aromatic'] = kind == 'ambig'
    req['given_templates'] = None
    contracts.CONTEXT.update(req)
    try:
        return _execute(case)
    finally:
        for k in req:
            contracts.CONTEXT.pop(k, None)


def _execute(case):
    from cgsmiles import MoleculeResolver
    from .. import contracts
    kind = case['kind']
    try:
        if kind == 'ambig':
            r = ambig_resolver(case, on_dicts=_given_templates)
        elif kind == 'multilevel':
            r = MoleculeResolver.from_string(case['multi_string'], last_all_atom=not case.get('coarse_last', False))
        elif kind == 'coarse_cut':
            r = make_resolver(case, on_dicts=_given_templates, last_all_atom=False)
        else:
            r = make_resolver(case, on_dicts=_given_templates, **case.get('kw', {}))
        steps, at_yield = [], []
        for cg_, aa_ in r.resolve_iter():
            # what the iterator hands out, looked at WHEN it hands it out (a caller loops over the levels as they come)
            at_yield.append(({n: d.get('fragname') for n, d in aa_.nodes(data=True)}, aa_.number_of_edges(), {n: d.get('fragname') for n, d in cg_.nodes(data=True)}))
            steps.append((cg_, aa_))
        calls = [c for c in contracts.CALL_LOG if c['resolver'] == id(r)]
        if len(calls) == len(at_yield):
            for lvl_, (c_, y_) in enumerate(zip(calls, at_yield)):
                if (c_['fragnames'], c_['edges'], c_['coarse_names']) != y_:
                    bad_ = next((n for n in y_[0] if c_['fragnames'].get(n) != y_[0][n]), None)
                    contracts.rec('C02', 'c02.step_changed_before_it_was_handed_out', f"level {lvl_} of {len(at_yield)}: resolve_iter() hands out a pair that differs from what the resolve() call for that "
                                  f"level returned (e.g. fine node {bad_}: fragment name {c_['fragnames'].get(bad_)!r} when resolved, {y_[0].get(bad_)!r} when handed out)")
                    break
        if kind == 'multilevel':
            # the one-call driver on a fresh resolver: the pair it hands back is judged by the resolve_all contract
            MoleculeResolver.from_string(case['multi_string'], last_all_atom=not case.get('coarse_last', False)).resolve_all()
    except SyntaxError as err:
        if EXPECTED_REJECTION in str(err):
            return dict(error=None, steps=[], rejected='not_kekulizable')
        return dict(error=f'{type(err).__name__}: {err}', steps=[], rejected=None)
    except Exception as err:
        return dict(error=f'{type(err).__name__}: {err}', steps=[], rejected=None)
    return dict(error=None, steps=steps, rejected=None)


def scribble_on_fresh_parse(case):
    """a caller parses the case's fragment blocks with read_fragments and edits what it got in place (descriptor lists
    emptied, attributes overwritten, bonds removed, dictionary emptied): its own copies - a later, independent parse of
    the same text must not notice; -> number of graphs edited"""
    import re
    import cgsmiles
    text = case.get('string') or case.get('multi_string') or (case['base_string'] + '.' + case['frag_string'])
    blocks = re.findall(r'\{[^}]*\}', text)[1:]
    coarse_last = case.get('coarse') or case.get('coarse_last') or case.get('kind') == 'coarse_cut'
    n = 0
    for i, b in enumerate(blocks):
        try:
            lib = cgsmiles.read_fragments(b, all_atom=(i == len(blocks) - 1 and not coarse_last))
        except Exception:
            continue
        for g in lib.values():
            for _, d in g.nodes(data=True):
                for v in d.values():
                    if isinstance(v, list):
                        v.clear()
                    elif isinstance(v, dict):
                        v.clear()
                d['element'] = d['atomname'] = d['fragname'] = 'Xx'
                d['weight'] = -7.0
            g.remove_edges_from(list(g.edges))
            n += 1
        lib.clear()
    return n


def describe_case(case):
    k = case['kind']
    if k == 'ambig':
        return f"{case['string']} (legacy={case['legacy']}, all_atom={not case['coarse']}, {case.get('ctor', 'string')})"
    if k == 'multilevel':
        return case['multi_string']
    return case_text(case)


# ---------------------------------------------------------------------------------------------
# cuts THROUGH a marked single bond: the slash is written between the double-bond atom and its
# descriptor (C=C/[$x]); no stereo expectation is attached, only the generator-independent invariants

def random_marked_cut_case(rng, both_sides=False):
    from ..gen import stereo as S
    for _ in range(50):
        res = S.gen_stereo_molecule(rng, n_chiral=0)
        if res is not None:
            break
    else:
        return None
    g, stereo, chiral = res
    pairs = [(s[l], s[a]) for s in stereo for l, a in (('l1', 'a1'), ('l2', 'a2'))]
    cut_pairs = [p for p in pairs if rng.random() < 0.6] or [rng.choice(pairs)]
    cut_edges = [frozenset(p) for p in cut_pairs]
    slash_pairs = {frozenset(p) for p in pairs}
    for e in g.edges:
        fe = frozenset(e)
        if fe not in slash_pairs and g.edges[e]['order'] == 1 and rng.random() < 0.25 and len(cut_edges) < 5:
            cut_edges.append(fe)
    h = g.copy()
    h.remove_edges_from([tuple(e) for e in cut_edges])
    comps = list(nx.connected_components(h))
    part = {n: i for i, c in enumerate(comps) for n in c}
    labels = M.label_pool(rng)
    desc, cutcount, label_of = {}, {}, {}
    for e in cut_edges:
        a, b = tuple(e)
        lab = next(labels)
        label_of[e] = lab
        desc.setdefault(a, []).append(('$', lab, 1))
        desc.setdefault(b, []).append(('$', lab, 1))
        key = frozenset((part[a], part[b]))
        cutcount[key] = cutcount.get(key, 0) + 1
    if any(v > 4 for v in cutcount.values()):
        return None
    frags = {}
    frag_atoms_ = {}
    lig_marked = set()       # substituents whose slash mark was written (next to the substituent itself)
    for i, comp in enumerate(comps):
        lig_here = [lig for (lig, anc) in pairs if frozenset((lig, anc)) in label_of and lig in comp]
        start_ = rng.choice(lig_here) if (both_sides and lig_here) else None
        r = M.render_fragment(rng, g, sorted(comp), desc, start=start_, opts={'explicit_single': 0.0, 'leading': bool(start_ is not None), 'desc_pos': 'after'})
        idx = {n: k for k, n in enumerate(r['atoms'])}
        # intact marked pairs of this fragment get a slash between the two atoms; for a cut pair the
        # slash goes in front of the descriptor on the double-bond atom
        child_tok, desc_tok = {}, {}
        for (lig, anc) in pairs:
            tok = rng.choice(['/', '\\'])
            if frozenset((lig, anc)) in label_of:
                if anc in idx:
                    desc_tok[(anc, label_of[frozenset((lig, anc))])] = tok
            elif lig in idx and anc in idx:
                child_tok[lig if idx[lig] > idx[anc] else anc] = tok
                lig_marked.add(lig)
        frag_atoms_['F%d' % i] = list(r['atoms'])
        out = []
        first_atom_seen = False
        for t in r['tokens']:
            if t[0] == 'atom' and t[2] in child_tok:
                out.append(child_tok[t[2]])
            if t[0] == 'desc' and (t[2], t[3][1]) in desc_tok:
                out.append(desc_tok[(t[2], t[3][1])])
            out.append('(' if t[0] == 'open' else ')' if t[0] == 'close' else t[1])
            # the substituent's side of the cut: leading descriptor of the fragment, then the same slash
            if both_sides and t[0] == 'desc' and not first_atom_seen and t[2] == start_:
                for (lig, anc) in pairs:
                    if lig == start_ and label_of.get(frozenset((lig, anc))) == t[3][1]:
                        out.append(rng.choice(['/', '\\']))
                        lig_marked.add(lig)
            if t[0] == 'atom':
                first_atom_seen = True
        frags['F%d' % i] = ''.join(out)
    base = nx.Graph()
    order = list(range(len(comps)))
    rng.shuffle(order)
    for i in order:
        base.add_node(i, fragname='F%d' % i)
    for key, v in cutcount.items():
        a, b = tuple(key)
        base.add_edge(a, b, order=v)
    ast, pre = M.base_to_ast(rng, base)
    items = list(frags.items())
    rng.shuffle(items)
    # which double-bond atom lost its marked substituent to another fragment: the one written first or the one written later
    pos_ = {a: k for atoms_ in frag_atoms_.values() for k, a in enumerate(atoms_)}
    first_written = False
    for s_ in stereo:
        for l_, a_, o_ in (('l1', 'a1', 'a2'), ('l2', 'a2', 'a1')):
            if (s_[l_], s_[a_]) in cut_pairs and part[s_[a_]] == part[s_[o_]] and pos_[s_[a_]] < pos_[s_[o_]]:
                first_written = True
    extra_feats = ['cut_substituent_of_the_first_written_double_bond_atom'] if first_written else ['cut_substituents_of_later_written_double_bond_atoms_only']
    return dict(kind='marked_cut', base_string=G.to_string(ast), frag_string='{' + ','.join('#%s=%s' % kv for kv in items) + '}',
                base_graph={'nodes': [[n, base.nodes[n]['fragname']] for n in base.nodes], 'edges': [[a, b, d['order']] for a, b, d in base.edges(data=True)]},
                ctor='string', features=['cut_through_marked_single_bond', 'double_bonds_%d' % len(stereo)] + (['slash_on_both_sides'] if both_sides else []) + extra_feats,
                nheavy=len(g), nfrag=len(comps), frag_atoms=frag_atoms_,
                fully_marked=[[s['a1'], s['a2']] for s in stereo if s['l1'] in lig_marked and s['l2'] in lig_marked],
                ligands=sorted({s[k] for s in stereo for k in ('l1', 'l2')}))
