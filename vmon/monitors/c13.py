"""C13 - bonding descriptors are separated from fragment text exactly (generative inverse)."""
import random

import networkx as nx

from ..gen import mol as M
from ..gen import annot as A
from ..gen import grammar as G
from ..oracles import V

PROPERTY = 'C13'
LEVEL = 'exploration'
RULE = ('fragment texts built as token lists: a random molecule (or coarse graph) is rendered as SMILES (random start atom, '
        'neighbour order, ring digits 1-9/%nn, ring bond symbol at opening/closing digit, bracket atoms with H count / charge, '
        'two-letter elements, the wildcard [*] on the text reader; coarse graphs also with a node multiplied 1-12 times by the expansion operator, and hand-built coarse texts with a multiplied branch - anchor(branch)|n - followed by descriptors and further nodes), THEN 0-4 descriptors per atom (kinds $ > < !, optional label, order symbol from . - = # $ or '
        'none) are inserted after atoms - before, after or between ring digits, or leading for the first atom - and '
        'annotations (positional/keyword weight, chirality, free keys) inside bracket atoms. Expected result is known by '
        'construction: text without insertions, ordered descriptor list kind+label+order per atom index, annotation dict per '
        'atom (independent annotation model). Checked on strip_bonding_descriptors and end-to-end through read_fragments; '
        'then every returned container (descriptor lists, annotation dicts, the fragment graph) is emptied / edited in place, as '
        'a caller stitching by hand would, and the SAME text is read and checked a second time. '
        'distinct = (feature set, #atoms, #descriptors); non-trivial = at least one descriptor or annotation.')
ASSUMPTIONS = ['slash marks (E/Z) are not part of this workload: they are removed from the text by design (C15)',
               'the aromatic bond symbol : is generated as a descriptor order on aromatic atoms only (order reported as 1.5)']
MECHANISMS = [('cgsmiles.read_fragments', 'strip_bonding_descriptors'), ('cgsmiles.read_fragments', 'collect_ring_number')]
FINDING_FEATURES = {}
SIZES = {'quick': 24000, 'thorough': 500000}
KINDS = ['$', '>', '<', '!']
LABELS = ['', '', 'a', 'A', '1', '1A', 'xy', 'b2', 'Z']


def decorate(rng, g, coarse=False):
    """random descriptor / annotation assignment -> desc {node: [(kind,label,order)]}, annots {node: (text, attrs)}"""
    desc, annots = {}, {}
    p = rng.choice([0.15, 0.4, 0.8])
    orders = rng.choice([(1,), (1, 1, 2, 3), (0, 1, 2, 3, 4)])
    for n in g.nodes:
        if rng.random() < p:
            desc[n] = [(rng.choice(KINDS), rng.choice(LABELS), rng.choice(orders)) for _ in range(rng.choice([1, 1, 1, 2, 3, 4]))]
            if not coarse and g.nodes[n].get('aromatic') and rng.random() < 0.3:
                # the aromatic bond symbol of SMILES in front of a descriptor on an aromatic atom: c:[$]
                k = rng.randrange(len(desc[n]))
                desc[n][k] = (desc[n][k][0], desc[n][k][1], 1.5)
        if rng.random() < 0.2:
            text, attrs = A.random_annotation(rng, 'frag')
            if text:
                annots[n] = (text, attrs)
    return desc, annots


def render_atomistic(rng):
    g = M.gen_molecule(rng, max_heavy=rng.choice([1, 3, 6, 10, 16]), p_ring=rng.choice([0.25, 0.7]), p_arom=rng.choice([0.3, 0.3, 0.8]), p_thio=0.5)
    desc, annots = decorate(rng, g)
    for n in annots:
        g.nodes[n]['force_bracket'] = True
    r = M.render_fragment(rng, g, list(g.nodes), desc,
                          opts={'bracket_p': rng.choice([0.0, 0.3]), 'explicit_single': rng.choice([0.0, 0.15]),
                                'leading': rng.choice([None, True, False]), 'desc_pos': rng.choice([None, 'before', 'after', 'mixed']),
                                'desc_after_branch': rng.choice([0.0, 0.5]), 'desc_in_parens': rng.choice([0.0, 0.0, 0.3])})
    tokens = []
    for t in r['tokens']:
        if t[0] == 'atom' and t[2] in annots:
            txt = t[1]
            if not txt.startswith('['):
                d = g.nodes[t[2]]
                txt = M.atom_text(d, d['hcount'] if rng.random() < 0.5 else 0, bracket=True)
            tokens.append(('atom', txt[:-1] + ';' + annots[t[2]][0] + ']', t[2], txt))
        else:
            tokens.append(t)
    if rng.random() < 0.2:
        # explicitly written hydrogens '([H])' on atoms written without brackets; they are atoms of the text like any
        # other and may carry descriptors and annotations themselves
        out, k, nh = [], 0, 0
        while k < len(tokens):
            t = tokens[k]
            out.append(t)
            k += 1
            if t[0] == 'atom' and not t[1].startswith('[') and g.nodes[t[2]]['hcount'] >= 1 and not g.nodes[t[2]].get('aromatic') and rng.random() < 0.4:
                while k < len(tokens) and tokens[k][0] in ('ring', 'desc') and tokens[k][2] == t[2]:
                    out.append(tokens[k])
                    k += 1
                hkey = ('H', t[2], nh)
                nh += 1
                out.append(('open',))
                if rng.random() < 0.3:
                    text, attrs = A.random_annotation(rng, 'frag')
                    if text:
                        annots[hkey] = (text, attrs)
                out.append(('atom', '[H;' + annots[hkey][0] + ']', hkey, '[H]') if hkey in annots else ('atom', '[H]', hkey))
                for _ in range(rng.choice([0, 1, 1, 2])):
                    x = (rng.choice('$<>!'), rng.choice(['', 'a', 'B2', '1']), 1)
                    out.append(('desc', M.fmt_desc(*x), hkey, x))
                out.append(('close',))
        tokens = out
        return tokens, [t[2] for t in tokens if t[0] == 'atom'], annots
    return tokens, r['atoms'], annots


def render_coarse(rng):
    g = M.gen_coarse_graph(rng, rng.randint(1, 10))
    desc, annots = decorate(rng, g, coarse=True)
    sub = nx.Graph()
    for n, d in g.nodes(data=True):
        sub.add_node(n, fragname=d['name'])
    for a, b, d in g.edges(data=True):
        sub.add_edge(a, b, order=d['order'])
    ast, pre = M.base_to_ast(rng, sub)
    tokens = []
    flat = G._flat(ast)
    elem_node = {id(e): n for (e, _, _, _), n in zip(flat, pre)}

    def emit(chain):
        for e in chain:
            n = elem_node[id(e)]
            if e['bond'] is not None:
                tokens.append(('bond', G.INV[e['bond']]))
            plain = '[#' + e['name'] + ']'
            if n in annots:
                tokens.append(('atom', '[#' + e['name'] + ';' + annots[n][0] + ']', n, plain))
            else:
                tokens.append(('atom', plain, n))
            items = [('desc', M.fmt_desc(*x), n, x) for x in desc.get(n, [])]
            rings = [('ring', G._sym(o) + (str(m) if (m < 10 and not pct) else '%%%02d' % m), n) for (o, m, pct) in e['rings']]
            seq, i, j = [], 0, 0
            while i < len(items) or j < len(rings):
                if j == len(rings) or (i < len(items) and rng.random() < 0.5):
                    seq.append(items[i])
                    i += 1
                else:
                    seq.append(rings[j])
                    j += 1
            tokens.extend(seq)
            for b in e['branches']:
                if b['order'] is not None:
                    tokens.append(('bond', G.INV[b['order']]))
                tokens.append(('open',))
                emit(b['chain'])
                tokens.append(('close',))
    emit(ast)
    return tokens, pre, annots


def tok_text(t, clean=False):
    if t[0] == 'open':
        return '('
    if t[0] == 'close':
        return ')'
    if t[0] == 'desc':
        return '' if clean else t[1]
    if t[0] == 'atom' and clean and len(t) > 3:
        return t[3]
    return t[1]


def mult_branch_case(rng):
    """coarse text with a multiplied branch: [pre nodes] anchor(branch)|n [descriptors] [post nodes].  The anchor and its branch
    stand n times; what is written behind the operator belongs to the LAST copy of the anchor, later nodes count from there"""
    names = ['A', 'B', 'PEO', 'X1', 'C']
    text, clean, desc, k = '', '', {}, 0

    def node(with_desc):
        nonlocal text, clean, k
        t = '[#%s]' % rng.choice(names)
        text += t
        clean += t
        if with_desc:
            put(k)
        k += 1

    def put(at):
        nonlocal text
        for _ in range(rng.choice([1, 1, 2])):
            x = (rng.choice(KINDS), rng.choice(LABELS), 1)
            text += M.fmt_desc(*x)
            desc.setdefault(at, []).append('%s%s%d' % x)
    for _ in range(rng.randint(0, 2)):
        node(rng.random() < 0.5)
    anchor = k
    node(False)
    m = rng.randint(1, 3)
    text += '('
    clean += '('
    for _ in range(m):
        node(False)
    n = rng.choice([1, 2, 2, 3, 4, 11])
    text += ')|%d' % n
    clean += ')|%d' % n
    k = anchor + n * (1 + m)
    if rng.random() < 0.8:
        put(anchor + (n - 1) * (1 + m))
    for _ in range(rng.randint(0, 2)):
        node(rng.random() < 0.7)
    return dict(text=text, clean=clean, desc={str(a): v for a, v in desc.items()}, attrs={}, natoms=k, coarse=True, text_only=False,
                features=['coarse', 'multiplied_branch'] + (['branch_multiplied_3plus_times'] if n >= 3 else []))


def cases(seed, tier, shard, nshards):
    rng = random.Random(f'{seed}:C13:{tier}:{shard}')
    for _ in range(SIZES[tier] // (40 * nshards)):
        yield mult_branch_case(rng)
    for _ in range(SIZES[tier] // nshards):
        coarse = rng.random() < 0.25
        tokens, atoms, annots = render_coarse(rng) if coarse else render_atomistic(rng)
        wildcard = False
        if not coarse and rng.random() < 0.08:
            # the wildcard atom of OpenSMILES, [*]: a bracket atom like any other for the text reader (the all-atom graph
            # reader has no element for it, so these texts are judged on strip_bonding_descriptors alone)
            ks = [k for k, t in enumerate(tokens) if t[0] == 'atom' and not (isinstance(t[2], tuple) and t[2][0] == 'H')]
            if ks:
                k = rng.choice(ks)
                t = tokens[k]
                tokens[k] = ('atom', '[*;' + annots[t[2]][0] + ']', t[2], '[*]') if len(t) > 3 else ('atom', '[*]', t[2])
                wildcard = True
        idx = {n: i for i, n in enumerate(atoms)}
        natoms = len(atoms)
        multiplied = 0
        attr_first = None
        if coarse and rng.random() < 0.3:
            # the expansion operator behind a plain node: the node stands n times, what is written behind it (descriptors,
            # branches, the next node) belongs to / follows the LAST copy, and every later node counts from there
            ks = [k for k, t in enumerate(tokens) if t[0] == 'atom'
                  and not any(x[0] == 'ring' and x[2] == t[2] for x in tokens)]
            if ks:
                k = rng.choice(ks)
                multiplied = rng.choice([1, 2, 3, 3, 4, 5, 6, 12])
                at = idx[tokens[k][2]]
                tokens.insert(k + 1, ('mult', '|%d' % multiplied))
                idx = {n: (i + multiplied - 1 if i >= at else i) for n, i in idx.items()}
                natoms += multiplied - 1
                # an annotation written in the multiplied node is that of its FIRST copy as far as the text reader goes
                # (and never that of the node behind the last copy)
                attr_first = (tokens[k][2], at)
        text = ''.join(tok_text(t) for t in tokens)
        clean = ''.join(tok_text(t, True) for t in tokens)
        exp_desc = {}
        feats = {'coarse' if coarse else 'atomistic'}
        prev = None
        first_atom_seen = False
        for t in tokens:
            if t[0] == 'atom':
                first_atom_seen = True
                if t[1].startswith('[') and not coarse:
                    feats.add('bracket_atom')
                if t[1].startswith('[H'):
                    feats.add('explicit_hydrogen_atom')
                if t[1] in ('Cl', 'Br'):
                    feats.add('two_letter_element')
            if t[0] == 'desc':
                kind, label, o = t[3]
                exp_desc.setdefault(idx[t[2]], []).append(f'{kind}{label}{o}')
                feats.add('kind_' + kind)
                if label:
                    feats.add('labelled')
                if o != 1:
                    feats.add('desc_order_symbol')
                if not first_atom_seen:
                    feats.add('leading_desc')
                elif o == 0:
                    feats.add('desc_order0_nonleading')
                if prev is not None and prev[0] == 'ring':
                    feats.add('desc_after_ring_digit')
                    if prev[1][0] in '=#-.$':
                        feats.add('ringsym_digit_desc')
                if prev is not None and prev[0] == 'close':
                    feats.add('desc_after_branch_close')
            if t[0] == 'ring' and '%' in t[1]:
                feats.add('ring_pct')
            if t[0] == 'open':
                feats.add('branch')
            prev = t
        if any(len(v) >= 2 for v in exp_desc.values()):
            feats.add('multi_desc_atom')
        exp_attr = {str(attr_first[1] if attr_first and n == attr_first[0] else idx[n]): attrs for n, (txt, attrs) in annots.items()}
        if annots:
            feats.add('annotation')
        if wildcard:
            feats.add('wildcard_bracket_atom')
        if multiplied:
            feats.add('multiplied_node' if multiplied <= 2 else 'node_multiplied_3plus_times')
        yield dict(text_only=wildcard, text=text, clean=clean, desc={str(k): v for k, v in exp_desc.items()}, attrs=exp_attr,
                   natoms=natoms, coarse=coarse, features=sorted(feats))


def check_once(case, tag=''):
    """one read of the text through strip_bonding_descriptors and read_fragments; returns (violations, returned objects)"""
    from cgsmiles.read_fragments import strip_bonding_descriptors
    import cgsmiles
    viol = []
    text = case['text']
    exp_desc = {int(k): v for k, v in case['desc'].items()}
    exp_attr = {int(k): v for k, v in case['attrs'].items()}
    try:
        clean, desc, ez, attrs = strip_bonding_descriptors(text)
    except Exception as err:
        return [V('c13.exception.' + type(err).__name__, f'{text!r}{tag} raised {type(err).__name__}: {err}')], None
    returned = [desc, ez, attrs]
    if clean != case['clean']:
        viol.append(V('c13.clean_text', f'{text!r}{tag}: clean text {clean!r}, expected {case["clean"]!r}'))
    got = {k: list(v) for k, v in desc.items() if v}
    if got != exp_desc:
        viol.append(V('c13.descriptors', f'{text!r}{tag}: descriptors by atom {got}, expected {exp_desc}'))
    for i in range(case['natoms']):
        a = dict(attrs.get(i, {}))
        want = exp_attr.get(i)
        if want is None:
            if any(k != 'weight' or v != 1.0 for k, v in a.items()):
                viol.append(V('c13.annotation_on_wrong_atom', f'{text!r}{tag}: atom {i} has annotations {a} but none was written on it'))
                break
        elif any(a.get(k) != v for k, v in want.items()) or any(k not in want for k in a):
            viol.append(V('c13.annotation', f'{text!r}{tag}: atom {i} has annotations {a}, expected {want}'))
            break
    if any(i >= case['natoms'] for i in attrs) or any(i >= case['natoms'] for i in got):
        viol.append(V('c13.atom_index_out_of_range', f'{text!r}{tag}: index beyond the {case["natoms"]} atoms: {sorted(got)} {sorted(attrs)}'))
    if ez:
        viol.append(V('c13.spurious_ez', f'{text!r}{tag}: E/Z marks {ez} reported but none written'))
    # end to end through read_fragments
    if not viol and not case.get('text_only'):
        try:
            frags = cgsmiles.read_fragments('{#T=' + text + '}', all_atom=not case['coarse'])
            g = frags['T']
            returned.append(g)
            gd = {n: list(d.get('bonding')) for n, d in g.nodes(data=True) if d.get('bonding')}
            if gd != exp_desc:
                viol.append(V('c13.read_fragments_descriptors', f'{text!r}{tag}: read_fragments puts descriptors {gd}, expected {exp_desc}'))
            for i, want in exp_attr.items():
                if i not in g or any(g.nodes[i].get(k) != v for k, v in want.items()):
                    viol.append(V('c13.read_fragments_annotation', f'{text!r}{tag}: node {i} has {dict(g.nodes[i]) if i in g else None}, expected annotation {want}'))
                    break
        except SyntaxError as err:
            pass   # chemically invalid after decoration is not this property's concern
        except Exception as err:
            viol.append(V('c13.read_fragments_exception.' + type(err).__name__, f'{text!r}{tag} raised {type(err).__name__}: {err}'))
    return viol, returned


def scribble(returned):
    """what a caller may do with results it owns: use up descriptor lists, edit annotation dictionaries, edit the graph"""
    desc, ez, attrs = returned[:3]
    for v in desc.values():
        if isinstance(v, list):
            v.clear()
    desc.clear()
    for a in attrs.values():
        if isinstance(a, dict):
            a['weight'] = -7.0
            a['scribble'] = 'x'
    attrs.clear()
    for g in returned[3:]:
        for n, d in g.nodes(data=True):
            if isinstance(d.get('bonding'), list):
                d['bonding'].clear()
            d['weight'] = -7.0
            d['scribble'] = 'x'


def run(case):
    viol, returned = check_once(case)
    if not viol and returned is not None:
        # the same text read again after the caller has consumed / edited what the first read returned
        scribble(returned)
        v2, _ = check_once(case, tag=' (read again after the results of the first read were edited in place)')
        viol += [V(v['clause'] + '.second_read', v['msg']) for v in v2]
    exp_desc = {int(k): v for k, v in case['desc'].items()}
    nd = sum(len(v) for v in exp_desc.values())
    return {'violations': viol, 'nontrivial': bool(nd or case['attrs']), 'cls': (tuple(case['features']), case['natoms'], nd),
            'sample': case['text'], 'evaluations': 2 if returned is not None and len(viol) == 0 else 1}
