"""Common body of the monitors whose oracle is the post-state contract on MoleculeResolver.resolve."""
import random

from .. import contracts
from ..oracles import V
from . import molcommon as MC

SIZES = {'quick': 4000, 'thorough': 100000}


def setup():
    contracts.install()


def cases(prop, seed, tier, shard, nshards, n=None):
    rng = random.Random(f'{seed}:{prop}:{tier}:{shard}')
    yield from MC.resolver_workload(rng, (n or SIZES[tier]) // nshards,
                                    max_heavy=(3, 6, 10, 16) if tier == 'quick' else (3, 6, 10, 16, 22))


def run(prop, case, exception_is_violation=False):
    contracts.clear()
    before = contracts.STATS['resolve_calls']
    res = MC.execute(case)
    viol = []
    for r in contracts.take(prop) + contracts.take('HARNESS'):
        viol.append(V(r['clause'], f"{MC.describe_case(case)} :: {r['msg']}"))
    contracts.clear()
    out = {'violations': viol, 'counters': {'resolve_calls_observed': contracts.STATS['resolve_calls'] - before},
           'sample': MC.describe_case(case)}
    if res['rejected']:
        out['rejected'] = {res['rejected']: 1}
    if res['error']:
        out['counters']['exceptions_' + case['kind']] = 1
        if exception_is_violation and case['kind'] not in ('ambig',):
            viol.append(V(f'{prop.lower()}.exception', f"{MC.describe_case(case)} raised {res['error']}"))
    feats = tuple(sorted(case['features']))
    out['cls'] = (case['kind'], feats, case.get('nheavy'), case.get('nfrag'))
    out['nontrivial'] = bool(res['steps'])
    return out
