"""Common body of the monitors whose oracle is the post-state contract on MoleculeResolver.resolve."""
import random

from .. import contracts
from ..oracles import V
from . import molcommon as MC

SIZES = {'quick': 6000, 'thorough': 100000}


def setup():
    contracts.install()


def cases(prop, seed, tier, shard, nshards, n=None):
    rng = random.Random(f'{seed}:{prop}:{tier}:{shard}')
    if shard == 0:
        yield dict(kind='repo_tests', features=['repository_test_suite_under_contract'])
    yield from MC.resolver_workload(rng, (n or SIZES[tier]) // nshards,
                                    max_heavy=(3, 6, 10, 16) if tier == 'quick' else (3, 6, 10, 16, 22))


def run_repo_tests(prop):
    """the repository's own 150 tests as an extra, human-written workload for the contract"""
    import json
    import os
    import subprocess
    import sys
    import tempfile
    from .. import env
    fd, out = tempfile.mkstemp(prefix='vmon_pytest_', suffix='.json', dir=os.path.join(env.VERIF, '.work'))
    os.close(fd)
    envv = dict(os.environ)
    envv['PYTHONPATH'] = os.pathsep.join([env.VERIF, env.DEPS, env.REPO])
    envv['VMON_PYTEST_OUT'] = out
    envv['PBR_VERSION'] = '0.0.0'
    try:
        p = subprocess.run([sys.executable, '-m', 'pytest', '-q', '-x', '-p', 'no:cacheprovider', '-p', 'vmon.pytest_plugin',
                            os.path.join(env.REPO, 'cgsmiles', 'tests', 'test_molecule_resolve.py'),
                            os.path.join(env.REPO, 'cgsmiles', 'tests', 'test_layering.py'),
                            os.path.join(env.REPO, 'cgsmiles', 'tests', 'test_coordinates.py'),
                            os.path.join(env.REPO, 'cgsmiles', 'tests', 'test_write_cgsmiles.py')],
                           cwd=env.REPO, env=envv, capture_output=True, text=True, timeout=900)
        with open(out) as fh:
            data = json.load(fh)
    except Exception as err:
        return {'violations': [], 'rejected': {'repo_tests_not_runnable': 1}, 'nontrivial': False, 'cls': 'repo_tests',
                'sample': f'repository tests under contract: not runnable ({type(err).__name__})'}
    finally:
        if os.path.exists(out):
            os.unlink(out)
    viol = [V(r['clause'], f"repository test {r.get('test')} :: {r['msg']}") for r in data['records'] if r['prop'] in (prop, 'HARNESS')]
    n = int(data['stats'].get('resolve_calls', 0))
    return {'violations': viol, 'evaluations': max(1, n), 'counters': {'resolve_calls_observed': n, 'repo_test_resolve_calls': n},
            'nontrivial': True, 'cls': 'repo_tests', 'sample': 'repository test-suite (resolver, layering, coordinates, writer tests) under the post-state contract'}


def run(prop, case, exception_is_violation=False):
    if case['kind'] == 'repo_tests':
        return run_repo_tests(prop)
    if prop == 'C03' and 'lower_case_kekule_ring' in case.get('features', ()):
        # bond orders of such rings are decided by kekulisation after assembly, not by the annotated descriptor order:
        # outside the input class C03 speaks about (the documentation asks for the Kekule spelling, which IS generated)
        return {'violations': [], 'rejected': {'lower_case_spelling_of_a_non_aromatic_ring': 1}, 'nontrivial': False, 'cls': 'skipped',
                'sample': MC.describe_case(case), 'counters': {}}
    contracts.clear()
    before = contracts.STATS['resolve_calls']
    if prop == 'C09' and len(MC.describe_case(case)) % 5 == 0:
        # other users of the hydrogen machinery in the same process (mass of a plain SMILES molecule, hydrogens of a
        # bare fragment): nothing they do may leak into the next resolution
        try:
            import pysmiles
            from cgsmiles.pysmiles_utils import compute_mass, rebuild_h_atoms
            compute_mass(pysmiles.read_smiles(['CCO', 'c1ccccc1', 'CC(=O)[O-]', 'N'][len(MC.describe_case(case)) % 4]))
            import cgsmiles
            frag = cgsmiles.read_fragments('{#X=[$]CC[$]O}')['X'].copy()
            rebuild_h_atoms(frag, keep_bonding=True)
        except Exception:
            pass
    scribbled = MC.scribble_on_fresh_parse(case) if len(MC.describe_case(case)) % 3 == 0 else 0
    contracts.CONTEXT['explicit_h_possible'] = '[H' in MC.describe_case(case)
    gaps = prop in ('C02', 'C03') and case.get('ctor') == 'from_fragment_dicts' and case['kind'] in ('cut', 'virtual', 'coarse_cut') and len(MC.describe_case(case)) % 2 == 0
    if gaps:
        gaps = 'shuffled' if len(MC.describe_case(case)) % 4 == 0 else 'gaps'
    contracts.CONTEXT['fragment_keys_with_gaps'] = gaps
    contracts.CONTEXT['base_graph_used_before'] = prop in ('C02', 'C11') and case['kind'] == 'virtual' and case.get('ctor') == 'from_graph'
    try:
        res = MC.execute(case)
    finally:
        contracts.CONTEXT['explicit_h_possible'] = True
        contracts.CONTEXT['fragment_keys_with_gaps'] = False
        contracts.CONTEXT['base_graph_used_before'] = False
        first_use_ok = contracts.CONTEXT.pop('first_use_succeeded', False)
    viol = []
    if first_use_ok and res['error']:
        # the same base-graph object resolved fine a moment ago (with fragments for its later fragment-less nodes); the
        # plain case is judged elsewhere, so an exception here is the history's doing
        viol.append(V(f'{prop.lower()}.exception_on_a_base_graph_used_before', f"{MC.describe_case(case)} raised {res['error']} on a base-graph object that had been resolved once before"))
    for r in contracts.take(prop) + contracts.take('HARNESS'):
        viol.append(V(r['clause'], f"{MC.describe_case(case)} :: {r['msg']}"))
    contracts.clear()
    out = {'violations': viol, 'counters': {'resolve_calls_observed': contracts.STATS['resolve_calls'] - before, 'fragment_graphs_keyed_with_gaps': int(bool(gaps)), 'fragment_graphs_parsed_and_scribbled_on_before': scribbled},
           'sample': MC.describe_case(case)}
    if res['rejected']:
        out['rejected'] = {res['rejected']: 1}
    if res['error']:
        out['counters']['exceptions_' + case['kind']] = 1
        if exception_is_violation and case['kind'] not in ('ambig',):
            viol.append(V(f'{prop.lower()}.exception', f"{MC.describe_case(case)} raised {res['error']}"))
    if prop == 'C02' and case['kind'] == 'multilevel':
        # "the fragment defined under that node's name" at every level: the definitions the resolver works
        # with must be those written in the block of that level (read independently through read_fragments)
        import re
        import cgsmiles
        from cgsmiles import MoleculeResolver
        try:
            last_aa = not case.get('coarse_last', False)
            r = MoleculeResolver.from_string(case['multi_string'], last_all_atom=last_aa)
            blocks = re.findall(r"\{[^\}]+\}", case['multi_string'])[1:]
            for lvl, blk in enumerate(blocks):
                ref = cgsmiles.read_fragments(blk, all_atom=(lvl == len(blocks) - 1 and last_aa))
                for name, g in ref.items():
                    have = r.fragment_dicts[lvl].get(name)
                    key = 'element' if (lvl == len(blocks) - 1 and last_aa) else 'atomname'
                    sig = lambda x: (sorted((n, d.get(key), tuple(d.get('bonding') or ())) for n, d in x.nodes(data=True)),
                                     sorted((min(a, b), max(a, b), d.get('order')) for a, b, d in x.edges(data=True)))
                    if have is None or sig(have) != sig(g):
                        viol.append(V('c02.definition_from_other_level', f"{case['multi_string']} :: at level {lvl} fragment {name!r} is "
                                      f"{sig(have) if have is not None else None}, its definition in that level's block reads {sig(g)}"))
                        break
        except Exception:
            pass
    if prop == 'C02' and res['steps'] and case.get('atom_annotations'):
        # 'same per-atom annotations' as the fragment DEFINED under the node's name: judged against the written text
        # (independent annotation model), not against what the library's own fragment reader made of it
        cg, aa = res['steps'][-1]          # the annotated texts are the definitions of the last (atomistic) level
        found, seen = MC.check_atom_annotations(case, aa, 'c02')
        for clause, msg in found:
            viol.append(V(clause, f"{MC.describe_case(case)} :: {msg}"))
        out['counters']['annotated_atoms_checked'] = seen
    if prop == 'C02' and res['steps'] and case['kind'] in ('cut', 'virtual') and case.get('truth') and not res['error']:
        # the copies taken together are the molecule that was cut: same reference as C01 (generator ground truth), so that a
        # fragment reader or library that hands the resolver the WRONG definition cannot hide behind its own templates
        from ..gen import mol as M_
        heavy, problems = M_.collapse_h(res['steps'][-1][1])
        if problems or not M_.same_molecule(heavy, MC.truth_from_json(case['truth'])):
            viol.append(V('c02.copy_differs_from_definition', f"{MC.describe_case(case)} :: the copies do not add up to the molecule whose fragments were written: {M_.describe(heavy)} {problems}"))
    if prop == 'C02' and res['steps'] and case['kind'] == 'coarse_cut' and case.get('truth'):
        # 'same internal bonds and bond orders' as the fragment DEFINED under the node's name: the bead graph the
        # generator cut into these fragments is the independent reference (the contract alone compares with what the
        # library's own fragment reader produced)
        cg, aa = res['steps'][-1]
        if not MC.coarse_result_matches(aa, MC.coarse_truth(case['truth'])):
            viol.append(V('c02.copy_differs_from_definition', f"{MC.describe_case(case)} :: the resolved bead graph (names, bonds, bond orders) is not the graph whose fragments were written: "
                          f"{sorted((min(a, b), max(a, b), d.get('order')) for a, b, d in aa.edges(data=True))}"))
    if prop == 'C03' and res['steps'] and case['kind'] in ('cut', 'virtual', 'coarse_cut'):
        # these workloads write one dedicated, uniquely labelled pair per unit of base-edge order:
        # 'exactly that many' bonds must exist between the two coarse nodes.  Where the generator raised the order of ONE
        # base edge beyond its descriptors (feature surplus_edge_order), that one edge ends one bond short and every other
        # edge, whose own pairs are all there, is still exact
        cg, aa = res['steps'][0]
        between = {}
        for u, v in aa.edges:
            fu, fv = aa.nodes[u].get('fragid') or [], aa.nodes[v].get('fragid') or []
            if len(fu) == 1 and len(fv) == 1 and fu != fv:
                key = frozenset((fu[0], fv[0]))
                between[key] = between.get(key, 0) + 1
        off = [(a, b, d.get('order', 1), between.get(frozenset((a, b)), 0)) for a, b, d in cg.edges(data=True)
               if between.get(frozenset((a, b)), 0) != d.get('order', 1)]
        surplus = 'surplus_edge_order' in case.get('features', ())
        if surplus and len(off) == 1 and off[0][3] == off[0][2] - 1:
            off = []
            out['counters']['surplus_edge_stayed_local'] = 1
        if off:
            a, b, o, k = off[-1]
            viol.append(V('c03.not_exactly_order_many_bonds', f"{MC.describe_case(case)} :: base edge {a}-{b} has order {o} "
                          f"and a dedicated descriptor pair per unit, but {k} bonds join the two fragments"
                          + (f" (one edge was written with a surplus order; {len(off)} edges deviate)" if surplus else '')))
    feats = tuple(sorted(case['features']))
    out['cls'] = (case['kind'], feats, case.get('nheavy'), case.get('nfrag'))
    out['nontrivial'] = bool(res['steps'])
    return out
