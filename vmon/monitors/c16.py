"""C16 - sampled polymers are well-formed molecules built from the given fragments (event log + output checker)."""
import collections
import random

import networkx as nx

from ..gen.mol import VAL
from ..oracles import V
from .. import hooks
from . import samplercommon as SC

PROPERTY = 'C16'
LEVEL = 'exploration'
RULE = ('random CLOSED sampler configurations (1-5 fragments, 1-4 descriptors each, $ with/without labels and >/< with labels, '
        'orders 1-2, optional terminal fragment, reactivity tables none / uniform / with zeros, conditional tables, coarse and '
        'all-atom, given or computed masses, targets of 1-40 average fragment masses, seeds; for a third of them two further molecules from the same sampler object). Every sample() runs under an '
        'add_fragment hook that logs each growth step. Oracle on the returned graph: keys 0..n-1, fragment ids 0..m-1 in '
        'contiguous ascending blocks, every block a copy of the template named by its fragname (heavy atoms / node names, '
        'internal orders), connected, exactly m-1 inter-block bonds and exactly one from each added block to the earlier '
        'ones, every such bond carries a complementary pair of equal order and has that order, per-atom ledger used + left '
        '<= written, valence completeness in all-atom mode; the log must be a derivation of the graph (one fragment, one '
        'bond per step). An exception is a legitimate dead end only if the failing growth step had no open descriptor '
        'with positive weight. distinct = (feature set, #blocks bucket); non-trivial = at least 2 blocks.')
ASSUMPTIONS = ['closed configurations: every >x has a <x of the same order in some fragment; $ pairs with any $ of equal order (12 % of the configurations carry one descriptor more whose complement exists with another order only: an exception there is a dead end, a returned molecule is judged like any other)',
               'block atoms in key order correspond to template atoms in template order (used for the per-atom ledger only; '
               'the copy check itself is an isomorphism test)']
MECHANISMS = [('cgsmiles.sample', 'MoleculeSampler.add_fragment'), ('cgsmiles.sample', 'MoleculeSampler.sample'),
              ('cgsmiles.cgsmiles_utils', 'find_complementary_bonding_descriptor'), ('cgsmiles.cgsmiles_utils', 'find_open_bonds')]
REQUIRED_COUNTERS = ['samples_returned']
SIZES = {'quick': 3600, 'thorough': 60000}


def setup():
    SC.install_hooks()


def cases(seed, tier, shard, nshards):
    rng = random.Random(f'{seed}:C16:{tier}:{shard}')
    made = 0
    while made < SIZES[tier] // nshards:
        c = SC.random_config(rng, closed=rng.random() >= 0.12)
        if c is None:
            continue
        made += 1
        yield c


def check_graph(cfg, sampler, mol):
    """-> list of (clause, msg)"""
    out = []
    txt = f"{cfg['frag_string']} seed={cfg['seed']}"
    n = len(mol)
    if set(mol.nodes) != set(range(n)):
        return [('c16.keys', f'{txt}: node keys are not 0..{n - 1}')]
    blocks = SC.blocks_of(mol)
    ids = list(blocks)
    seq = [mol.nodes[i].get('fragid') for i in range(n)]
    if any(not isinstance(f, list) or len(f) != 1 for f in seq):
        return [('c16.fragid', f'{txt}: fragid entries are not single-element lists: {seq[:10]}')]
    flat = [f[0] for f in seq]
    if flat != sorted(flat) or sorted(set(flat)) != list(range(len(set(flat)))):
        out.append(('c16.blocks_not_canonical', f'{txt}: fragment ids by key {flat[:40]}'))
        return out
    m = len(blocks)
    # by the 'fragname' attribute the fragment graphs carry - a caller's library keys need not repeat it
    templates = {next((d.get('fragname') for _, d in t.nodes(data=True)), key): t for key, t in sampler.fragment_dict.items()}
    if len(templates) != len(sampler.fragment_dict):
        templates = sampler.fragment_dict
    corr = {}
    for k, nodes in blocks.items():
        fname = mol.nodes[nodes[0]].get('fragname')
        if any(mol.nodes[x].get('fragname') != fname for x in nodes) or fname not in templates:
            out.append(('c16.block_fragname', f'{txt}: block {k} has fragment names { {mol.nodes[x].get("fragname") for x in nodes} }'))
            continue
        t = templates[fname]
        sub = mol.subgraph(nodes)
        if cfg['all_atom']:
            heavy = [x for x in nodes if mol.nodes[x].get('element') != 'H']
            th = [x for x in t.nodes if t.nodes[x].get('element') != 'H']
            g1, g2 = mol.subgraph(heavy), t.subgraph(th)
            nm = lambda a, b: a.get('element') == b.get('element') and a.get('charge', 0) == b.get('charge', 0)
            # a template written in lower case carries 1.5 on its ring bonds; in the result the ring is either aromatic (1.5)
            # or, where the documented definition does not call it aromatic (pyrrole, imidazole), a Kekule structure (1 / 2)
            em = lambda a, b: SC.order_ok(b.get('order', 1), a.get('order', 1), True) or (b.get('order', 1) == 1.5 and a.get('order', 1) in (1, 2))
        else:
            g1, g2 = sub, t
            nm = lambda a, b: a.get('atomname') == b.get('atomname')
            em = lambda a, b: a.get('order', 1) == b.get('order', 1)
        if len(g1) != len(g2) or g1.number_of_edges() != g2.number_of_edges() or not nx.is_isomorphic(g1, g2, node_match=nm, edge_match=em):
            out.append(('c16.copy_not_isomorphic', f'{txt}: block {k} ({fname}) is not a copy of its template: '
                        f'{[(x, mol.nodes[x].get("element", mol.nodes[x].get("atomname"))) for x in g1]} {list(g1.edges(data="order"))} vs '
                        f'{[(x, t.nodes[x].get("element", t.nodes[x].get("atomname"))) for x in g2]} {list(g2.edges(data="order"))}'))
            continue
        if cfg['all_atom']:
            # a hydrogen WRITTEN on a lower-case ring nitrogen ([nH]) is part of the unit: every copy has it (adding up bond
            # orders does not see it while the ring still carries 1.5 bonds)
            import re
            k_nh = dict(re.findall(r'#(\w+)=([^,}]*)', cfg['frag_string'])).get(fname, '').count('[nH]')
            if k_nh:
                got_nh = sum(1 for x in heavy if mol.nodes[x].get('element') == 'N' and any(mol.nodes[y].get('element') == 'H' for y in mol[x]))
                if got_nh != k_nh:
                    out.append(('c16.written_hydrogen_lost', f'{txt}: block {k} ({fname}) has {got_nh} ring N-H, its fragment is written with {k_nh} [nH]'))
                    continue
        tn = list(t.nodes)
        first = nodes[:len(tn)]
        key = 'element' if cfg['all_atom'] else 'atomname'
        if len(first) == len(tn) and all(mol.nodes[a].get(key) == t.nodes[b].get(key) for a, b in zip(first, tn)):
            for a, b in zip(first, tn):
                corr[a] = (fname, b)
    if not nx.is_connected(mol):
        out.append(('c16.disconnected', f'{txt}: the sampled molecule has {nx.number_connected_components(mol)} components'))
    inter = [(u, v, d) for u, v, d in mol.edges(data=True) if mol.nodes[u]['fragid'] != mol.nodes[v]['fragid']]
    if len(inter) != m - 1:
        out.append(('c16.not_a_tree', f'{txt}: {m} fragment copies but {len(inter)} inter-fragment bonds'))
    to_earlier = collections.Counter()
    used = collections.Counter()
    for u, v, d in inter:
        if mol.nodes[u]['fragid'][0] > mol.nodes[v]['fragid'][0]:
            u, v = v, u
        to_earlier[mol.nodes[v]['fragid'][0]] += 1
        pair = d.get('bonding')
        if not pair or len(pair) != 2:
            out.append(('c16.no_descriptor_pair', f'{txt}: inter-fragment bond {u}-{v} without descriptor pair'))
            continue
        site, partner = pair
        if not SC.complementary(site, partner):
            out.append(('c16.not_complementary', f'{txt}: bond {u}-{v} joins {site} with {partner}'))
        if d.get('order') != int(site[-1]) or site[-1] != partner[-1]:
            out.append(('c16.bond_order', f'{txt}: bond {u}-{v} from {pair} has order {d.get("order")}'))
        used[(u, site)] += 1
        used[(v, partner)] += 1
    for k in range(1, m):
        if to_earlier[k] != 1:
            out.append(('c16.not_one_bond_per_added_fragment', f'{txt}: added fragment {k} has {to_earlier[k]} bonds to earlier fragments'))
            break
    for (a, desc), cnt in used.items():
        if a not in corr:
            continue
        fname, b = corr[a]
        written = list(templates[fname].nodes[b].get('bonding') or []).count(desc)
        left = list(mol.nodes[a].get('bonding') or []).count(desc)
        if cnt + left > written:
            out.append(('c16.descriptor_reused', f'{txt}: atom {a} ({fname}:{b}) wrote {desc} {written}x, used {cnt}x and still offers {left}x'))
    if cfg['all_atom']:
        for a, d in mol.nodes(data=True):
            el = d.get('element')
            if el == 'H':
                # a hydrogen written as a fragment of its own stays as written: bonded once, or alone if nothing was attached to it
                own = len(templates.get(d.get('fragname'), ())) == 1 and len(mol) == 1
                if mol.degree(a) != 1 and not (own and mol.degree(a) == 0):
                    out.append(('c16.h_degree', f'{txt}: hydrogen {a} has degree {mol.degree(a)}'))
                continue
            hv = sum(e.get('order', 1) for _, x, e in mol.edges(a, data=True) if mol.nodes[x].get('element') != 'H')
            tot = sum(e.get('order', 1) for _, x, e in mol.edges(a, data=True))
            vals = VAL.get((el, d.get('charge', 0)))
            fit = [v for v in (vals or []) if v >= hv - 1e-9]
            if fit and abs(fit[0] - tot) > 1e-9:
                out.append(('c16.valence', f'{txt}: atom {a} {el}: heavy bonds {hv}, all bonds {tot}, usual valence {fit[0]}'))
                break
    return out, m


def run(cfg):
    SC.LOG.clear()
    SC.CHOICES.clear()
    SC.FAIL.clear()
    viol, counters, rejected = [], collections.Counter(), {}
    txt = f"{cfg['frag_string']} poly={cfg['polymer_reactivities']} cond={cfg['fragment_reactivities']} term={cfg['terminal_bonds']} seed={cfg['seed']}"
    m = 0
    try:
        sampler = SC.make_sampler(cfg)
        target = SC.target_of(cfg, sampler)
        mol = sampler.sample(target, start_fragment=cfg['start_fragment'])
    except Exception as err:
        fail = dict(SC.FAIL)
        if fail:
            eligible = [d for d in fail['open_bonds'] if (not fail['polymer'] or fail['polymer'].get(d, 0) > 0)]
            if eligible and cfg.get('unclosed'):
                rejected['dead_end_descriptor_without_partner_of_equal_order'] = 1
            elif eligible:
                viol.append(V('c16.unexpected_exception.' + type(err).__name__, f'{txt}: sample() raised {type(err).__name__}: {err} although '
                              f'open descriptors {eligible} had positive weight (open: {fail["open_bonds"]})'))
            else:
                rejected['dead_end_no_eligible_descriptor'] = 1
        elif 'add_fragment' in {k for k in hooks.COUNTERS}:
            viol.append(V('c16.unexpected_exception.' + type(err).__name__, f'{txt}: raised {type(err).__name__}: {err} outside a growth step'))
        else:
            rejected['exception_unclassified_no_hook'] = 1
        return {'violations': viol, 'rejected': rejected, 'nontrivial': False, 'cls': ('dead_end', tuple(cfg['features'])), 'sample': txt}
    counters['samples_returned'] += 1
    chk = check_graph(cfg, sampler, mol)
    res, m = chk if isinstance(chk, tuple) else (chk, 0)
    for clause, msg in res:
        viol.append(V(clause, msg))
    # the log must be a derivation of the graph
    log = list(SC.LOG)
    counters['growth_events'] += len(log)
    if log:
        templates = sampler.fragment_dict
        if m and len(log) != m - 1:
            viol.append(V('c16.log_length', f'{txt}: {len(log)} growth steps logged, {m} fragment copies in the result'))
        for i, ev in enumerate(log):
            t = templates.get(ev['fragname'])
            if t is None:
                viol.append(V('c16.log_unknown_fragment', f'{txt}: step {i} added unknown fragment {ev["fragname"]}'))
                break
            if ev['n_new_nodes'] != len(t) or ev['n_new_edges'] != t.number_of_edges() + 1 or len(ev['cross']) != 1:
                viol.append(V('c16.log_step_shape', f'{txt}: step {i} added {ev["n_new_nodes"]} nodes / {ev["n_new_edges"]} edges / '
                              f'{len(ev["cross"])} bonds to the molecule for fragment {ev["fragname"]} ({len(t)} nodes, {t.number_of_edges()} edges)'))
                break
    # further molecules drawn from the SAME sampler object: each of them is judged like the first
    if cfg['seed'] % 3 == 0 and not viol:
        for k in range(2):
            SC.LOG.clear()
            SC.FAIL.clear()
            try:
                later = sampler.sample(target, start_fragment=cfg['start_fragment'])
            except Exception:
                rejected['dead_end_on_a_later_draw'] = 1
                break
            chk = check_graph(cfg, sampler, later)
            res2 = chk[0] if isinstance(chk, tuple) else chk
            counters['later_draws_from_one_sampler'] += 1
            for clause, msg in res2:
                viol.append(V(clause, f'[molecule {k + 2} drawn from one sampler object] {msg}'))
            if viol:
                break
    blocks_bucket = 1 if m <= 1 else 2 if m <= 3 else 10 if m <= 10 else 40
    return {'violations': viol, 'counters': dict(counters), 'rejected': rejected, 'nontrivial': m >= 2, 'sample': txt,
            'cls': (tuple(cfg['features']), blocks_bucket)}
