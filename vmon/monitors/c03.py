"""C03 - post-state contract on every MoleculeResolver.resolve call over a mixed workload."""
from . import poststate
from .. import contracts

PROPERTY = 'C03'
LEVEL = 'exploration'
MECHANISMS = [('cgsmiles.resolve', 'compatible'), ('cgsmiles.resolve', 'match_bonding_descriptors'), ('cgsmiles.resolve', 'MoleculeResolver.edges_from_bonding_descrpt')]
REQUIRED_COUNTERS = ['resolve_calls_observed']
ASSUMPTIONS = ['compatibility relation restated independently in vmon/contracts.py compatible_ref', 'the count per coarse pair is checked for atoms with a single membership (a squashed atom belongs to both sides)', 'exactly-that-many is enforced only on unique-label workloads (through the C01/C10/C06 isomorphism oracles)']
RULE = 'mixed resolver workload: unique-label cut molecules (G-mol x G-cut x G-render, all three constructors), shared-atom cases, virtual nodes / zero-order edges, 2-4-level hierarchies (atomistic and coarse last level), coarse cut graphs (a quarter with bead names like NA+, CL-, C1-prime, N-ter), periodic copolymers (the same ordered name pair on several base edges, optionally one surplus base-edge order), and G-ambig polymer inputs (unlabelled $, homopolymers, surplus descriptors, multiplied units, rings, both matching conventions, atomistic and coarse). After EVERY resolve() call every fine bond whose endpoints share no coarse node must: lie across a base edge of order >= 1, carry a descriptor pair that is compatible under the convention in force (independent restatement), have both annotated orders equal and equal to the bond order (1.5 allowed between two aromatic atoms), have endpoints whose templates carried exactly these descriptors, not use a descriptor more often than it was written on that atom, and not exceed the base edge order per coarse pair. distinct = (kind, feature set, #heavy, #fragments); non-trivial = resolve() completed.'


def setup():
    poststate.setup()


def cases(seed, tier, shard, nshards):
    yield from poststate.cases(PROPERTY, seed, tier, shard, nshards)


def run(case):
    return poststate.run(PROPERTY, case)
