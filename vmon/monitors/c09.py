"""C09 - post-state contract on every MoleculeResolver.resolve call over a mixed workload."""
from . import poststate
from .. import contracts

PROPERTY = 'C09'
LEVEL = 'exploration'
MECHANISMS = [('cgsmiles.pysmiles_utils', 'rebuild_h_atoms'), ('cgsmiles.resolve', 'MoleculeResolver.edges_from_bonding_descrpt'), ('cgsmiles.pysmiles_utils', 'read_fragment_smiles')]
REQUIRED_COUNTERS = ['resolve_calls_observed']
ASSUMPTIONS = ['independent valence table vmon/gen/mol.py VAL', 'atoms whose heavy-atom bond orders exceed every usual valence are outside the claim and only counted', 'hydrogens written explicitly in a template (they carry a mapping entry) keep their own membership/weight by design']
RULE = 'mixed resolver workload: unique-label cut molecules (G-mol x G-cut x G-render, all three constructors), shared-atom cases, virtual nodes / zero-order edges, 2-4-level hierarchies (atomistic and coarse last level), coarse cut graphs (a quarter with bead names like NA+, CL-, C1-prime, N-ter), periodic copolymers (the same ordered name pair on several base edges, optionally one surplus base-edge order), and G-ambig polymer inputs (unlabelled $, homopolymers, surplus descriptors, multiplied units, rings, both matching conventions, atomistic and coarse). After EVERY all-atom resolve() call: each heavy atom whose heavy-atom bond orders fit a usual valence carries exactly (smallest fitting valence - sum of orders) hydrogens; every hydrogen has degree 1; completed hydrogens carry the fragid, fragname and weight of their atom. distinct = (kind, feature set, #heavy, #fragments); non-trivial = resolve() completed.'


def setup():
    poststate.setup()


def cases(seed, tier, shard, nshards):
    import random
    from . import samplercommon as SC
    yield from poststate.cases(PROPERTY, seed, tier, shard, nshards)
    rng = random.Random(f'{seed}:C09s:{tier}:{shard}')
    made = 0
    while made < (600 if tier == 'quick' else 15000) // nshards:
        c = SC.random_config(rng)
        if c is None or not c['all_atom']:
            continue
        made += 1
        yield dict(c, kind='sampler', features=sorted(set(c['features']) | {'sampler_output'}))


def run(case):
    if case['kind'] != 'sampler':
        return poststate.run(PROPERTY, case)
    from . import samplercommon as SC
    from ..gen.mol import VAL
    from ..oracles import V
    txt = f"sampler {case['frag_string']} seed={case['seed']} target_units={case['target_units']}"
    try:
        mol = SC.construct_and_sample(case)
    except Exception:
        return {'violations': [], 'rejected': {'sampler_dead_end_judged_by_C16': 1}, 'nontrivial': False, 'cls': 'sampler_dead_end', 'sample': txt}
    viol, checked = [], 0
    import re
    h_fragments = set(re.findall(r'#(\w+)=(?:\[[$<>][^\]]*\])\[H\](?=[,}])', case['frag_string']))
    for a, d in mol.nodes(data=True):
        el = d.get('element')
        if el == 'H':
            # a hydrogen written as a fragment of its own ([$][H]) is an atom of the input, not a completed hydrogen: it keeps
            # its own fragment identity and is bonded once (or not at all if it is the whole sample)
            own_fragment = d.get('fragname') in h_fragments
            if mol.degree(a) != 1 and not (own_fragment and mol.degree(a) == 0 and len(mol) == 1):
                viol.append(V('c09.h_degree', f'{txt}: hydrogen {a} has degree {mol.degree(a)}'))
                break
            if own_fragment:
                continue
            p = next(iter(mol[a]))
            if any(d.get(k) != mol.nodes[p].get(k) for k in ('fragid', 'fragname')):
                viol.append(V('c09.h_inherit', f'{txt}: hydrogen {a} has fragid/fragname {d.get("fragid")}/{d.get("fragname")}, its atom {p} {mol.nodes[p].get("fragid")}/{mol.nodes[p].get("fragname")}'))
                break
            continue
        hv = sum(e.get('order', 1) for _, x, e in mol.edges(a, data=True) if mol.nodes[x].get('element') != 'H')
        tot = sum(e.get('order', 1) for _, x, e in mol.edges(a, data=True))
        fit = [v for v in (VAL.get((el, d.get('charge', 0))) or []) if v >= hv - 1e-9]
        if fit:
            checked += 1
            if abs(fit[0] - tot) > 1e-9:
                viol.append(V('c09.valence', f'{txt}: atom {a} {el}: heavy bond orders {hv}, all bond orders {tot}, smallest usual valence {fit[0]}'))
                break
    return {'violations': viol, 'counters': {'sampler_atoms_checked': checked, 'resolve_calls_observed': 0}, 'nontrivial': len(mol) > 1,
            'cls': ('sampler', tuple(case['features'])), 'sample': txt}
