"""C09 - post-state contract on every MoleculeResolver.resolve call over a mixed workload."""
from . import poststate
from .. import contracts

PROPERTY = 'C09'
LEVEL = 'exploration'
MECHANISMS = [('cgsmiles.pysmiles_utils', 'rebuild_h_atoms'), ('cgsmiles.resolve', 'MoleculeResolver.edges_from_bonding_descrpt'), ('cgsmiles.pysmiles_utils', 'read_fragment_smiles')]
REQUIRED_COUNTERS = ['resolve_calls_observed']
ASSUMPTIONS = ['independent valence table vmon/gen/mol.py VAL', 'atoms whose heavy-atom bond orders exceed every usual valence are outside the claim and only counted', 'hydrogens written explicitly in a template (they carry a mapping entry) keep their own membership/weight by design']
RULE = 'mixed resolver workload: unique-label cut molecules (G-mol x G-cut x G-render, all three constructors), shared-atom cases, virtual nodes / zero-order edges, 2-4-level hierarchies (atomistic and coarse last level), coarse cut graphs (a quarter with bead names like NA+, CL-, C1-prime, N-ter), periodic copolymers (the same ordered name pair on several base edges, optionally one surplus base-edge order), and G-ambig polymer inputs (unlabelled $, homopolymers, surplus descriptors, multiplied units, rings, both matching conventions, atomistic and coarse). After EVERY all-atom resolve() call: each heavy atom whose heavy-atom bond orders fit a usual valence carries exactly (smallest fitting valence - sum of orders) hydrogens; every hydrogen has degree 1; completed hydrogens carry the fragid, fragname and weight of their atom. Plus hand-written silicone / selenide / germane / arsine / borane / telluride units (bracket atoms outside the SMILES organic subset, explicit [SiH2]) as chains through the resolver and the sampler, open ends and unused descriptors on those atoms. distinct = (kind, feature set, #heavy, #fragments); non-trivial = resolve() completed.'


def setup():
    poststate.setup()


def cases(seed, tier, shard, nshards):
    import random
    from . import samplercommon as SC
    yield from poststate.cases(PROPERTY, seed, tier, shard, nshards)
    rng = random.Random(f'{seed}:C09s:{tier}:{shard}')
    made = 0
    while made < (600 if tier == 'quick' else 15000) // nshards:
        c = SC.random_config(rng)
        if c is None or not c['all_atom']:
            continue
        made += 1
        yield dict(c, kind='sampler', features=sorted(set(c['features']) | {'sampler_output'}))
    for _ in range((300 if tier == 'quick' else 6000) // nshards):
        yield hetero_case(rng)


HETERO = ['{l}[Si](C)(C)O{r}', '{l}[Si](C){r}', '{l}C[SiH2]{r}', '{l}C[Si](C)(C)C{r}', '{l}C[Se]', '{l}C[Se]{r}', '{l}[Se]C{r}',
          '{l}[Ge](C)(C){r}', '{l}C[GeH2]C{r}', '{l}C[As]', '{l}C[As](C){r}', '{l}C[B]C{r}', '{l}CB(O)O', '{l}C[Te]{r}', '{l}C[Te]',
          '{l}C[SiH](C){r}', '{l}O[Si](O{r})(C)C', '{l}C[Se][Se]C{r}']


def hetero_case(rng):
    """chains of units with a bracket atom of a main-group element outside the organic subset; open chain ends and unused
    descriptors sit on those atoms as well"""
    k = rng.choice(['$', '<>'])
    l, r = ('[$]', '[$]') if k == '$' else ('[<]', '[>]')
    names = ['A', 'B'][:rng.choice([1, 1, 2])]
    frs = {nm: rng.choice(HETERO).format(l=l, r=r) for nm in names}
    seq = [rng.choice(names) for _ in range(rng.randint(1, 6))]
    base = '{' + ''.join('[#%s]' % nm for nm in seq) + '}' if rng.random() < 0.5 or len(names) > 1 else '{[#A]|%d}' % len(seq)
    return dict(kind='hetero', string=base + '.{' + ','.join('#%s=%s' % kv for kv in frs.items()) + '}', via=rng.choice(['resolver', 'resolver', 'sampler']),
                frag_string='{' + ','.join('#%s=%s' % kv for kv in frs.items()) + '}', seed=rng.randrange(10 ** 6), target=rng.choice([100.0, 300.0]),
                features=sorted({'bracket_atom_outside_the_organic_subset'} | {'el_' + e for e in ('Si', 'Se', 'Ge', 'As', 'B', 'Te') if any(e in f for f in frs.values())}))


def run_hetero(case):
    from .. import contracts
    from ..gen.mol import VAL
    from ..oracles import V
    contracts.clear()
    viol, checked = [], 0
    txt = case['string'] if case['via'] == 'resolver' else f"sampler {case['frag_string']} seed={case['seed']} target={case['target']}"
    try:
        if case['via'] == 'resolver':
            from cgsmiles import MoleculeResolver
            cg, mol = MoleculeResolver.from_string(case['string']).resolve_all()
        else:
            from cgsmiles import MoleculeSampler
            mol = MoleculeSampler.from_fragment_string(case['frag_string'], polymer_reactivities={}, all_atom=True, seed=case['seed']).sample(case['target'])
    except Exception as err:
        contracts.clear()
        return {'violations': [], 'rejected': {'hetero_not_resolvable_' + type(err).__name__: 1}, 'nontrivial': False, 'cls': 'hetero_rejected', 'sample': txt}
    for r in contracts.take(PROPERTY):
        viol.append(V(r['clause'], f"{txt} :: {r['msg']}"))
    contracts.clear()
    for a, d in mol.nodes(data=True):
        el = d.get('element')
        if el == 'H':
            if mol.degree(a) != 1:
                viol.append(V('c09.h_degree', f'{txt}: hydrogen {a} has degree {mol.degree(a)}'))
                break
            continue
        hv = sum(e.get('order', 1) for _, x, e in mol.edges(a, data=True) if mol.nodes[x].get('element') != 'H')
        tot = sum(e.get('order', 1) for _, x, e in mol.edges(a, data=True))
        fit = [v for v in (VAL.get((el, d.get('charge', 0))) or []) if v >= hv - 1e-9]
        if fit:
            checked += 1
            if abs(fit[0] - tot) > 1e-9 and not viol:
                viol.append(V('c09.valence', f'{txt}: atom {a} {el}: heavy bond orders {hv}, all bond orders {tot}, smallest usual valence {fit[0]}'))
    return {'violations': viol, 'counters': {'hetero_atoms_checked': checked, 'resolve_calls_observed': 0}, 'nontrivial': len(mol) > 1,
            'cls': ('hetero', case['via'], tuple(case['features'])), 'sample': txt}


def run(case):
    if case['kind'] == 'hetero':
        return run_hetero(case)
    if case['kind'] != 'sampler':
        return poststate.run(PROPERTY, case)
    from . import samplercommon as SC
    from ..gen.mol import VAL
    from ..oracles import V
    txt = f"sampler {case['frag_string']} seed={case['seed']} target_units={case['target_units']}"
    try:
        sampler_ = SC.make_sampler(case)
        target_ = SC.target_of(case, sampler_)
        mol = sampler_.sample(target_, start_fragment=case['start_fragment'])
        if case['seed'] % 2 == 0:
            # a further molecule from the SAME sampler object (same start fragment): judged like the first
            try:
                mol = sampler_.sample(target_, start_fragment=case['start_fragment'])
                txt += ' [second molecule drawn from one sampler object]'
            except Exception:
                pass
    except Exception:
        return {'violations': [], 'rejected': {'sampler_dead_end_judged_by_C16': 1}, 'nontrivial': False, 'cls': 'sampler_dead_end', 'sample': txt}
    viol, checked = [], 0
    import re
    h_fragments = set(re.findall(r'#(\w+)=(?:\[[$<>][^\]]*\])\[H\](?=[,}])', case['frag_string']))
    for a, d in mol.nodes(data=True):
        el = d.get('element')
        if el == 'H':
            # a hydrogen written as a fragment of its own ([$][H]) is an atom of the input, not a completed hydrogen: it keeps
            # its own fragment identity and is bonded once (or not at all if it is the whole sample)
            own_fragment = d.get('fragname') in h_fragments
            if mol.degree(a) != 1 and not (own_fragment and mol.degree(a) == 0 and len(mol) == 1):
                viol.append(V('c09.h_degree', f'{txt}: hydrogen {a} has degree {mol.degree(a)}'))
                break
            if own_fragment:
                continue
            p = next(iter(mol[a]))
            if any(d.get(k) != mol.nodes[p].get(k) for k in ('fragid', 'fragname')):
                viol.append(V('c09.h_inherit', f'{txt}: hydrogen {a} has fragid/fragname {d.get("fragid")}/{d.get("fragname")}, its atom {p} {mol.nodes[p].get("fragid")}/{mol.nodes[p].get("fragname")}'))
                break
            continue
        hv = sum(e.get('order', 1) for _, x, e in mol.edges(a, data=True) if mol.nodes[x].get('element') != 'H')
        tot = sum(e.get('order', 1) for _, x, e in mol.edges(a, data=True))
        fit = [v for v in (VAL.get((el, d.get('charge', 0))) or []) if v >= hv - 1e-9]
        if fit:
            checked += 1
            if abs(fit[0] - tot) > 1e-9:
                viol.append(V('c09.valence', f'{txt}: atom {a} {el}: heavy bond orders {hv}, all bond orders {tot}, smallest usual valence {fit[0]}'))
                break
    return {'violations': viol, 'counters': {'sampler_atoms_checked': checked, 'resolve_calls_observed': 0}, 'nontrivial': len(mol) > 1,
            'cls': ('sampler', tuple(case['features'])), 'sample': txt}
