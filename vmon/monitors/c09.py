"""C09 - post-state contract on every MoleculeResolver.resolve call over a mixed workload."""
from . import poststate
from .. import contracts

PROPERTY = 'C09'
LEVEL = 'exploration'
MECHANISMS = [('cgsmiles.pysmiles_utils', 'rebuild_h_atoms'), ('cgsmiles.resolve', 'MoleculeResolver.edges_from_bonding_descrpt'), ('cgsmiles.pysmiles_utils', 'read_fragment_smiles')]
REQUIRED_COUNTERS = ['resolve_calls_observed']
ASSUMPTIONS = ['independent valence table vmon/gen/mol.py VAL', 'atoms whose heavy-atom bond orders exceed every usual valence are outside the claim and only counted', 'hydrogens written explicitly in a template (they carry a mapping entry) keep their own membership/weight by design']
RULE = 'mixed resolver workload: unique-label cut molecules (G-mol x G-cut x G-render, all three constructors), shared-atom cases, virtual nodes / zero-order edges, 2-4-level hierarchies (atomistic and coarse last level), coarse cut graphs, and G-ambig polymer inputs (unlabelled $, homopolymers, surplus descriptors, multiplied units, rings, both matching conventions, atomistic and coarse). After EVERY all-atom resolve() call: each heavy atom whose heavy-atom bond orders fit a usual valence carries exactly (smallest fitting valence - sum of orders) hydrogens; every hydrogen has degree 1; completed hydrogens carry the fragid, fragname and weight of their atom. distinct = (kind, feature set, #heavy, #fragments); non-trivial = resolve() completed.'


def setup():
    poststate.setup()


def cases(seed, tier, shard, nshards):
    yield from poststate.cases(PROPERTY, seed, tier, shard, nshards)


def run(case):
    return poststate.run(PROPERTY, case)
