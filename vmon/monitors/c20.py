"""C20 - malformed input is rejected, never silently resolved (fault injection at the input boundary)."""
import copy
import random
import re

from ..gen import grammar as G
from ..gen import mol as M
from ..gen import annot as A
from ..oracles import V
from .. import contracts
from . import molcommon as MC

PROPERTY = 'C20'
LEVEL = 'fault_enumeration'
RULE = ('starting from valid strings (C04 grammar ASTs incl. multiplied nodes/branches; C01 cut molecules; coarse cut graphs and '
        '3-level strings) ONE fault is injected at EVERY admissible position of each base string: (a) a ring marker (digit or '
        '%nn) opened on node i and never closed; (b) a ring bond duplicating an existing edge (chain neighbour, branch anchor, '
        'existing ring bond); (c) a node with an edge of order >= 1 renamed to a name without fragment (also with a proper virtual node of that name earlier in the string); (d) an annotation '
        'entry with two "="; (e) more positional values than the dialect has, written before, after or around a key=value entry; (f) a non-numeric value (positional or keyword) '
        'for a key that is reserved-numeric at that level - in base-graph nodes, coarse-fragment nodes and atomistic bracket '
        'atoms; (f) on atoms also with the text of a base-graph node of the same string as the value; (d-f) also inside a SECOND definition of an already defined name appended to its block, and (a) also on nodes of '
        'coarse fragments. Expected: SyntaxError for a-e, TypeError for f, raised by read_cgsmiles / from_string / resolve; anything '
        'else (a returned graph, another exception type) is a violation. In hierarchies (3+ blocks) fault (c) also renames a node to a name that only ANOTHER block defines. evaluations = faulted strings executed; distinct = '
        '(fault class, level, position class, feature set of the base string).')
ASSUMPTIONS = ['ring faults inside ATOMISTIC fragment SMILES are parsed by pysmiles (non-strict), not by the anchored mechanisms: not generated',
               'a node without any edge of order >= 1 counts as virtual (documented) and is not a fault (c) target']
MECHANISMS = [('cgsmiles.read_cgsmiles', 'read_cgsmiles'), ('cgsmiles.dialects', '_parse_dialect_string'),
              ('cgsmiles.dialects', 'check_and_cast_types'), ('cgsmiles.resolve', 'MoleculeResolver.resolve_disconnected_molecule')]
FINDING_FEATURES = {'annot.nonnumeric_value_before_duplicate_key': 'nonnumeric_value_then_same_key_again'}
EXHAUSTIVE = {'quick': False, 'thorough': False}
SIZES = {'quick': 480, 'thorough': 12000}
BAD = {
    'base': {'d': ['w=a=b', 'q=1=2', 'k=v=w', '0;w=1=1'], 'e': ['0;1;2', '0;1;2;3', '1;1;1;k=v', 'k=v;1;2;3', 'q=1;2;3;4', '1;k=v;2;3'],
             'f': ['q=abc', 'abc', '0;x1', 'w=1,5', 'w=', 'q=1e', 'q=0;w=one', 'q=1 000', 'w=72 Da', 'q=- 1', 'q=(1)',
                   # the faulty entry repeats a key the annotation already carries with a proper value in front of it
                   'q=1;q=abc', 'w=2.5;w=heavy']},
    'frag': {'d': ['w=a=b', 'x=R=S', 'k=v=w', '1;x=R=R'], 'e': ['1;R;2', '0.5;S;1;2', '1;R;S;k=v', 'k=v;0.5;R;8', 'x=R;0.5;7;8', '1;k=v;S;R'],
             'f': ['w=abc', 'abc', 'w=1.5.2', 'w=', 'abc;R', 'x=R;w=heavy', 'w=1 000', 'w=72 Da', 'w=16;w=heavy', 'w=1;x=R;w=abc']},
}
EXPECT = {'c_fresh': 'SyntaxError', 'c_other_level': 'SyntaxError', 'a': 'SyntaxError', 'b': 'SyntaxError', 'c': 'SyntaxError', 'd': 'SyntaxError', 'e': 'SyntaxError', 'f': 'TypeError'}


def position_class(i, n, depth, in_unit):
    p = 'first' if i == 0 else ('last' if i == n - 1 else 'middle')
    return p + ('_nested' if depth >= 2 else '_branch' if depth == 1 else '') + ('_in_mult_unit' if in_unit else '')


def base_variants(rng, ast, per_node_annot=2):
    """all single-fault variants of a base-graph AST -> [(fault, posclass, string)]"""
    out = []
    flat = G._flat(ast)
    n = len(flat)
    used = {m for e, _, _, _ in flat for (_, m, _) in e['rings']}
    free_digit = [m for m in range(0, 10) if m not in used]
    free_pct = [m for m in range(0, 100) if m not in used]

    def variant(mutate):
        a = copy.deepcopy(ast)
        fl = G._flat(a)
        mutate(fl)
        return G.to_string(a)
    for i, (e, depth, unit, parent) in enumerate(flat):
        pc = position_class(i, n, depth, bool(unit))
        ringable = e['mult'] == 1 and not e.get('force_mult')
        if ringable and not unit:
            if free_digit:
                m = rng.choice(free_digit)
                out.append(('a', pc, variant(lambda fl, i=i, m=m: fl[i][0]['rings'].insert(0, (rng.choice([None, 2]), m, False)))))
            m = rng.choice(free_pct)
            out.append(('a', pc + '_pct', variant(lambda fl, i=i, m=m: fl[i][0]['rings'].append((None, m, True)))))
            # ... and an index that an EARLIER ring of the same string used and closed, opened once more and left open
            closed = {}
            for j in range(i):
                for (_, m2, pct2) in flat[j][0]['rings']:
                    closed.setdefault(m2, []).append(pct2)
            done = [(m2, v[0]) for m2, v in closed.items() if len(v) == 2 and not any(r[1] == m2 for k in range(i, n) for r in flat[k][0]['rings'])]
            if done:
                m2, pct2 = rng.choice(done)

                def reuse(fl, i=i, m2=m2, pct2=pct2):
                    fl[i][0]['rings'].append((None, m2, pct2))
                    fl[i][0]['rings'].sort(key=lambda r: (r[2] or r[1] >= 10))
                out.append(('a', pc + '_reused_index', variant(reuse)))
        # (b) duplicate of the edge to the parent
        if parent is not None and ringable and not unit and parent['mult'] == 1 and not any(b['mult'] > 1 for b in parent['branches']):
            j = next(k for k, x in enumerate(flat) if x[0] is parent)
            pct = rng.random() < 0.3
            m = rng.choice(free_pct if pct else (free_digit or free_pct))

            def dup(fl, i=i, j=j, m=m, pct=pct):
                fl[j][0]['rings'].append((rng.choice([None, 0, 2]), m, pct or m >= 10))
                fl[i][0]['rings'].append((None, m, pct or m >= 10))
                for k in (i, j):
                    fl[k][0]['rings'].sort(key=lambda r: (r[2] or r[1] >= 10))
            out.append(('b', pc + ('_anchor' if depth and flat[j][1] < depth else '_chain'), variant(dup)))
        # (d, e, f) annotation faults
        for fault in 'def':
            for text in rng.sample(BAD['base'][fault], min(per_node_annot, len(BAD['base'][fault]))):
                out.append((fault, pc, variant(lambda fl, i=i, text=text: fl[i][0].update(annot=text))))
    # (a) the unclosed index as the LAST of many markers on one node: the node first gets 3-6 proper ring bonds to later,
    # non-adjacent nodes (%nn markers), then the dangling one
    plain = [i for i, (e, depth, unit, parent) in enumerate(flat) if e['mult'] == 1 and not e.get('force_mult') and not unit
             and not any(b['mult'] > 1 for b in e['branches'])]
    for i in plain[:2]:
        adj = {k for k, x in enumerate(flat) if x[3] is flat[i][0] or flat[i][3] is x[0]}
        ringed = {k for k, x in enumerate(flat) if {r[1] for r in x[0]['rings']} & {r[1] for r in flat[i][0]['rings']}}
        later = [j for j in plain if j > i and j not in adj and j not in ringed]
        if len(later) >= 3 and len(free_pct) >= 8:
            js = rng.sample(later, min(len(later), rng.randint(3, 6)))
            ms = rng.sample([m for m in free_pct if m >= 10], len(js) + 1)

            def hub(fl, i=i, js=js, ms=ms):
                for j, m in zip(js, ms):
                    fl[i][0]['rings'].append((rng.choice([None, 2, 3]), m, True))
                    fl[j][0]['rings'].append((None, m, True))
                    fl[j][0]['rings'].sort(key=lambda r: (r[2] or r[1] >= 10))
                fl[i][0]['rings'].sort(key=lambda r: (r[2] or r[1] >= 10))
                fl[i][0]['rings'].append((None, ms[-1], True))
            out.append(('a', position_class(i, n, flat[i][1], False) + '_last_of_many_markers', variant(hub)))
    # (a) a three-digit index: one more digit written behind the %nn marker that opens a proper ring - %nnd is opened and
    # never closed (and the ring's own closing %nn has nothing to close)
    for i, (e, depth, unit, parent) in enumerate(flat):
        opening = [k for k, (o_, m_, pct_) in enumerate(e['rings']) if pct_ and m_ >= 10
                   and sum(1 for x in flat[:i] for r in x[0]['rings'] if r[1] == m_) == 0 and sum(1 for x in flat[i + 1:] for r in x[0]['rings'] if r[1] == m_) == 1
                   and sum(1 for r in e['rings'] if r[1] == m_) == 1]
        if opening and e['rings'][opening[-1]] is e['rings'][-1]:
            k = opening[-1]
            dgt = rng.randrange(10)

            def longer(fl, i=i, k=k, dgt=dgt):
                o_, m_, pct_ = fl[i][0]['rings'][k]
                fl[i][0]['rings'][k] = (o_, m_ * 10 + dgt, True)
            out.append(('a', position_class(i, n, depth, bool(unit)) + '_three_digit_index', variant(longer)))
            break
    # (b) duplicate of an existing ring bond
    pairs = {}
    for i, (e, depth, unit, parent) in enumerate(flat):
        for (_, m, _) in e['rings']:
            pairs.setdefault(m, []).append(i)
    for m, ij in pairs.items():
        if len(ij) == 2 and free_digit:
            i, j = ij
            mm = rng.choice(free_digit)

            def dupring(fl, i=i, j=j, mm=mm):
                fl[i][0]['rings'].insert(0, (None, mm, False))
                fl[j][0]['rings'].insert(0, (None, mm, False))
            out.append(('b', 'existing_ring', variant(dupring)))
    return out


def atom_annotation_variants(rng, tokens, g, n_per=1, extra_f=()):
    """(d,e,f) injected into every atom of an atomistic fragment (turned into a bracket atom)"""
    out = []
    atoms = [k for k, t in enumerate(tokens) if t[0] == 'atom']
    for pos, k in enumerate(atoms):
        for fault in 'def':
            for text in rng.sample(BAD['frag'][fault], n_per) + (list(extra_f) if fault == 'f' and pos % 3 == 0 else []):
                toks = list(tokens)
                t = toks[k]
                d = g.nodes[t[2]]
                txt = t[1] if t[1].startswith('[') else M.atom_text(d, d['hcount'], bracket=True)
                toks[k] = ('atom', txt[:-1] + ';' + text + ']', t[2])
                out.append((fault, 'first' if pos == 0 else 'last' if pos == len(atoms) - 1 else 'middle',
                            ''.join('(' if x[0] == 'open' else ')' if x[0] == 'close' else x[1] for x in toks)))
    return out


def cases(seed, tier, shard, nshards):
    rng = random.Random(f'{seed}:C20:{tier}:{shard}')
    made = 0
    # confirmation stream of an open finding: the non-numeric value comes FIRST and the same key follows with a proper value
    for _ in range(3 if tier == 'quick' else 40):
        names = [rng.choice(['A', 'B', 'PEO']) for _ in range(rng.randint(1, 6))]
        k = rng.randrange(len(names))
        key = rng.choice('qw')
        bad = '%s=%s;%s=%s' % (key, rng.choice(['abc', 'one', '1,5']), key, rng.choice(['1', '0.5', '2']))
        valid = '{' + ''.join('[#%s]' % n_ for n_ in names) + '}'
        faulted = '{' + ''.join('[#%s%s]' % (n_, ';' + bad if i == k else '') for i, n_ in enumerate(names)) + '}'
        yield dict(kind='base', valid=valid, variants=[dict(fault='f', pos=position_class(k, len(names), 0, False), level='base', api='read_cgsmiles', string=faulted)],
                   features=['nonnumeric_value_then_same_key_again'])
    while made < SIZES[tier] // nshards:
        r = rng.random()
        if r < 0.45:
            # base graph only -> read_cgsmiles
            n = rng.choice([1, 2, 4, 8, 15, 30, 60 if tier == 'thorough' else 25])
            ast = G.random_ast(rng, n, max_depth=rng.randint(1, 4), p_branch=rng.choice([0.2, 0.5]), p_bond=rng.choice([0.1, 0.5]),
                               n_rings=rng.choice([0, 1, 3]), p_mult_node=rng.choice([0, 0.2]), p_mult_branch=rng.choice([0, 0.3]),
                               p_annot=rng.choice([0, 0.3]), annot_fn=lambda r_: A.random_annotation(r_, 'base'), p_trailing_branch=rng.choice([0, 0.15]))
            feats = G.features(ast)
            if feats & {'nested_branch_in_mult_unit', 'ring_in_mult_unit',
                        'node_mult_after_bond_in_mult_unit', 'nested_mult_after_nested_branch', 'ring_on_mult_anchor', 'branch_mult_in_mult_unit'}:
                continue
            try:
                G.denote(ast)
            except G.RefSyntaxError:
                continue
            vs = [dict(fault=f, pos=p, level='base', api='read_cgsmiles', string=s) for f, p, s in base_variants(rng, ast)]
            made += 1
            yield dict(kind='base', valid=G.to_string(ast), variants=vs, features=sorted(f for f in feats if not f.startswith('depth')))
        elif r < 0.8:
            # complete atomistic string -> from_string().resolve()
            g = M.gen_molecule(rng, max_heavy=rng.choice([3, 6, 10, 16]))
            nparts = rng.randint(1, min(len(g), 6))
            part = M.partition(rng, g, k=nparts)
            c = M.build_case(rng, g, part, render_opts={'explicit_single': 0.0})
            if c is None:
                continue
            # zero-order (virtual) edges between real nodes: a node that loses its fragment then has a mixed
            # neighbourhood (some order-0, some real edges) and must still be rejected
            if len(c['base']) >= 3 and rng.random() < 0.5:
                for _ in range(rng.randint(1, 3)):
                    a_, b_ = rng.sample(list(c['base'].nodes), 2)
                    if not c['base'].has_edge(a_, b_):
                        c['base'].add_edge(a_, b_, order=0)
            ast, pre = M.base_to_ast(rng, c['base'])
            items = list(c['frags'].items())
            rng.shuffle(items)
            frag = lambda repl=None: '{' + ','.join('#%s=%s' % (k, (repl or {}).get(k, v)) for k, v in items) + '}'
            base_s = G.to_string(ast)
            vs = []
            for f, p, s in base_variants(rng, ast, per_node_annot=1):
                vs.append(dict(fault=f, pos=p, level='base', api='resolve', string=s + '.' + frag()))
                if f in 'ab' and (p.startswith('last') or rng.random() < 0.15):
                    # the same faulty base string handed to from_fragment_dicts together with parsed fragment graphs
                    vs.append(dict(fault=f, pos=p + '_via_from_fragment_dicts', level='base', api='resolve_from_fragment_dicts', string=s + '.' + frag()))
            flat = G._flat(ast)
            for i, node in enumerate(pre):
                if any(d.get('order', 1) >= 1 for _, _, d in c['base'].edges(node, data=True)):
                    a2 = copy.deepcopy(ast)
                    G._flat(a2)[i][0]['name'] = 'NOFRAG'
                    mixed = any(d.get('order', 1) == 0 for _, _, d in c['base'].edges(node, data=True))
                    vs.append(dict(fault='c', pos=position_class(i, len(pre), flat[i][1], False) + ('_mixed_orders' if mixed else ''), level='base', api='resolve',
                                   string=G.to_string(a2) + '.' + frag()))
                    # ... and when a proper fragment-less node of the SAME undefined name (order-0 bond only) stands earlier
                    # in the string: that one is virtual, this one is still a fault
                    vs.append(dict(fault='c', pos='after_a_virtual_node_of_the_same_name' + ('_mixed_orders' if mixed else ''), level='base', api='resolve',
                                   string='{[#NOFRAG].' + G.to_string(a2)[1:] + '.' + frag()))
                    # the same fault when the base graph is handed over as a networkx graph
                    vs.append(dict(fault='c', pos='via_from_graph' + ('_mixed_orders' if mixed else ''), level='base', api='resolve_from_graph',
                                   string=G.to_string(a2) + '.' + frag()))
            for fi, (name, text) in enumerate(items):
                late = '_late_fragment' if fi == len(items) - 1 and len(items) > 2 else ''
                # (f) also with the text of a base-graph node of the same string as the faulty value: '[C;F0]' where '[#F0]'
                # was read a moment ago - a proper node name there, a non-numeric weight here
                for f, p, s in atom_annotation_variants(rng, c['tokens'][name], g, extra_f=[rng.choice(items)[0]]):
                    vs.append(dict(fault=f, pos=p + late, level='atom', api='resolve', string=base_s + '.' + frag({name: s})))
            # the same atom-level faults inside a SECOND definition of a name that is already defined earlier in the block
            # (the first definition is the one that counts, the faulty text still has to be rejected)
            for fi, (name, text) in enumerate(items):
                for f, p, s in atom_annotation_variants(rng, c['tokens'][name], g)[:3]:
                    vs.append(dict(fault=f, pos='repeated_definition', level='atom', api='resolve',
                                   string=base_s + '.' + frag()[:-1] + ',#%s=%s}' % (name, s)))
            made += 1
            yield dict(kind='complete', valid=base_s + '.' + frag(), variants=vs, features=sorted(MC.cut_features(g, part, c)))
        else:
            # coarse fragments (2- or 3-level strings, coarse last level): annotation faults in [#...] nodes of the fragments
            c = MC.random_multilevel_case(rng, 10, coarse_last=True) if rng.random() < 0.5 else MC.random_coarse_cut_case(rng, rng.randint(2, 10))
            if c is None:
                continue
            s = c.get('multi_string') or (c['base_string'] + '.' + c['frag_string'])
            head, _, rest = s.partition('}.')
            vs = []
            # (annotation faults go into nodes that carry no annotation of their own: appended to an existing one the text
            # would mean something else)
            spots = [m.end() - 1 for m in re.finditer(r'\[#[^\];]*\]', rest)]
            for k, at in enumerate(spots):
                for fault in 'def':
                    text = rng.choice(BAD['frag'][fault])
                    faulty = head + '}.' + rest[:at] + ';' + text + rest[at:]
                    vs.append(dict(fault=fault, pos='first' if k == 0 else 'last' if k == len(spots) - 1 else 'middle',
                                   level='coarse_fragment', api='resolve_coarse', string=faulty))
                    # ... and inside a second definition of the same name appended to its block
                    lo = max(rest.rfind(',', 0, at), rest.rfind('{', 0, at)) + 1
                    hi_c, hi_b = rest.find(',', at), rest.find('}', at)
                    hi = min(x for x in (hi_c, hi_b) if x != -1)
                    if rest[lo] == '#' and rng.random() < 0.3:
                        bad_def = rest[lo:at] + ';' + text + rest[at:hi]
                        vs.append(dict(fault=fault, pos='repeated_definition', level='coarse_fragment', api='resolve_coarse',
                                       string=head + '}.' + rest[:hi_b] + ',' + bad_def + rest[hi_b:]))
                # (a) a ring marker opened on this coarse-fragment node and never closed
                after = rest[at + 1:at + 2]
                if '%97' not in rest and not after.isdigit() and after != '|':
                    vs.append(dict(fault='a', pos='coarse_fragment_node', level='coarse_fragment', api='resolve_coarse',
                                   string=head + '}.' + rest[:at + 1] + '%97' + rest[at + 1:]))
            # (c) in hierarchies: a node renamed to a name that is defined, but only in ANOTHER block (every block is a name
            # space of its own); judged only if the same node renamed to a name defined nowhere is rejected (premise: the
            # node has an edge of order >= 1)
            blocks = re.findall(r'\{[^\}]+\}', s)
            if len(blocks) >= 3:
                defined = [set(re.findall(r'(?:(?<=\{)|(?<=,))#(\w+)=', b)) for b in blocks]
                for lvl in range(len(blocks) - 1):
                    others = sorted(set().union(*[defined[k] for k in range(1, len(blocks)) if k != lvl + 1]) - defined[lvl + 1])
                    spots_ = [m for m in re.finditer(r'\[#(\w+)(?=[;\]])', blocks[lvl])]
                    if not others or not spots_:
                        continue
                    m = rng.choice(spots_)
                    start = sum(len(b) + 1 for b in blocks[:lvl])
                    for tag_, newname in (('c_fresh', 'ZZ9'), ('c_other_level', rng.choice(others))):
                        txt_ = s[:start + m.start(1)] + newname + s[start + m.end(1):]
                        vs.append(dict(fault=tag_, pos='level_%d' % lvl, level='hierarchy', api='resolve_coarse' if c.get('coarse_last', True) else 'resolve', string=txt_))
            made += 1
            yield dict(kind='coarse', valid=s, variants=vs, features=sorted(c['features']))


def execute(api, s):
    import cgsmiles
    from cgsmiles import MoleculeResolver
    if api == 'read_cgsmiles':
        return cgsmiles.read_cgsmiles(s)
    if api == 'resolve_from_graph':
        cut = s.index('}.{')
        return MoleculeResolver.from_graph(s[cut + 2:], cgsmiles.read_cgsmiles(s[:cut + 1])).resolve_all()
    if api == 'resolve_from_fragment_dicts':
        cut = s.index('}.{')
        return MoleculeResolver.from_fragment_dicts(s[:cut + 1], [cgsmiles.read_fragments(s[cut + 2:])]).resolve_all()
    if api == 'resolve':
        return MoleculeResolver.from_string(s).resolve_all()
    return MoleculeResolver.from_string(s, last_all_atom=False).resolve_all()


def run(case):
    contracts.clear()
    viol, classes = [], set()
    rejected = {}
    # the unfaulted string must be accepted, otherwise the faults prove nothing
    api0 = case['variants'][0]['api'] if case['variants'] else 'read_cgsmiles'
    try:
        execute(api0, case['valid'])
    except Exception as err:
        contracts.clear()
        return {'violations': [V('c20.valid_string_rejected', f'unfaulted {case["valid"]!r} raised {type(err).__name__}: {err}')],
                'evaluations': 1, 'cls': ('valid_rejected',)}
    premise = {}
    for v in case['variants']:
        want = EXPECT[v['fault']]
        if v['fault'] == 'c_fresh':
            # only the premise for the next variant: is this node one that needs a fragment at all?
            try:
                execute(v['api'], v['string'])
                premise[v['pos']] = False
            except SyntaxError:
                premise[v['pos']] = True
            except Exception:
                premise[v['pos']] = False
            continue
        if v['fault'] == 'c_other_level' and not premise.get(v['pos']):
            rejected['premise_not_met_node_is_virtual'] = rejected.get('premise_not_met_node_is_virtual', 0) + 1
            continue
        cls = (v['fault'], v['level'], v['pos'])
        classes.add(cls + (tuple(case['features']),))
        try:
            execute(v['api'], v['string'])
            viol.append(V(f"c20.accepted.{v['fault']}", f"fault ({v['fault']}) at {v['pos']} ({v['level']}): {v['string']!r} was accepted; expected {want}"))
        except Exception as err:
            got = type(err).__name__
            if got != want:
                viol.append(V(f"c20.wrong_exception.{v['fault']}.{got}", f"fault ({v['fault']}) at {v['pos']} ({v['level']}): {v['string']!r} raised {got}: {err}; expected {want}"))
            else:
                rejected[f"{v['fault']}_{v['level']}_{want}"] = rejected.get(f"{v['fault']}_{v['level']}_{want}", 0) + 1
    contracts.clear()
    feats = sorted({f"fault_{v['fault']}_{v['level']}" for v in case['variants']} | {f"pos_{v['pos']}" for v in case['variants']})
    return {'violations': viol, 'evaluations': len(case['variants']) + 1, 'cls': sorted(classes), 'rejected': rejected,
            'features': feats, 'nontrivial': bool(case['variants']),
            'sample': {'valid': case['valid'], 'faulted': [x['string'] for x in case['variants'][:3]]}}
