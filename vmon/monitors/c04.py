"""C04 - the graph reader implements the documented grammar (history + executable model)."""
import itertools
import random

from ..gen import grammar as G
from ..gen import annot as A
from .. import oracles, hooks

PROPERTY = 'C04'
LEVEL = 'exploration'
RULE = ('ASTs of the documented graph grammar (no multipliers): exhaustive over all ordered trees with <= N nodes x '
        'edge-order symbols {implicit . - =} x trailing-branch spelling x one ring bond (every non-adjacent pair x '
        '{none . =} x digit/%nn), plus seeded random ASTs (<= 25/40 nodes, depth <= 3/5, <= 4 rings, annotations) and hub cases (one node with 8-16 %nn ring bonds to later nodes, 24-80 characters of marker text). '
        'Each is unparsed, read by the real read_cgsmiles and compared EXACTLY (keys, names, annotation values, '
        'edges, orders) with the graph an independent reference builds from the AST. distinct = distinct '
        '(feature set, node count, edge count) classes; non-trivial = at least 2 nodes.')
ASSUMPTIONS = ['reference semantics in vmon/gen/grammar.py (build) follow docs/source/syntax/basic_graph_description.rst',
               'ring bond-order symbols are generated at the opening marker only (documented position)',
               'a %nn marker is never directly followed by a bare digit marker (ambiguous tokenisation)']
MECHANISMS = [('cgsmiles.read_cgsmiles', 'read_cgsmiles'), ('cgsmiles.dialects', '_parse_dialect_string')]
FINDING_FEATURES = {'reader.branch_ends_in_nested_branch': 'double_close'}
EXHAUSTIVE = {'quick': False, 'thorough': False}
SIZES = {'quick': dict(exh_n=4, exh_ring_n=4, rand=2600, max_nodes=25, depth=3),
         'thorough': dict(exh_n=5, exh_ring_n=5, rand=60000, max_nodes=40, depth=5)}


def _ring_variants(ast):
    """every non-adjacent pair of written nodes x order x marker style, one ring at a time"""
    flat = G._flat(ast)
    idx = {id(e): i for i, (e, _, _, _) in enumerate(flat)}
    adj = set()
    for i, (e, d, u, p) in enumerate(flat):
        if p is not None:
            adj.add((min(i, idx[id(p)]), max(i, idx[id(p)])))
    for i, j in itertools.combinations(range(len(flat)), 2):
        if (i, j) in adj:
            continue
        for o in (None, 0, 2):
            for pct in (False, True):
                yield i, j, o, pct


def _with_ring(ast, i, j, o, pct):
    import copy
    a = copy.deepcopy(ast)
    flat = G._flat(a)
    m = 12 if pct else 1
    flat[i][0]['rings'].append((o, m, pct))
    flat[j][0]['rings'].append((None, m, pct))
    return a


def hub_case(rng):
    """one node with 8-16 ring bonds to later nodes (a cross-linker, a dendrimer core): its marker text is 24-80 characters"""
    ast = G.random_ast(rng, rng.choice([24, 36, 60]), max_depth=2, p_branch=0.2, p_bond=0.2, n_rings=0)
    flat = G._flat(ast)
    idx = {id(e): i for i, (e, _, _, _) in enumerate(flat)}
    adj = set()
    for i, (e, d, u, p) in enumerate(flat):
        if p is not None:
            adj.add((min(i, idx[id(p)]), max(i, idx[id(p)])))
    plain = [i for i, (e, d, u, p) in enumerate(flat) if e['mult'] == 1 and not u and not any(b['mult'] > 1 for b in e['branches'])]
    if len(plain) < 12:
        return None
    i = rng.choice(plain[:max(1, len(plain) // 3)])
    later = [j for j in plain if j > i and (i, j) not in adj]
    if len(later) < 8:
        return None
    js = rng.sample(later, min(len(later), rng.randint(8, 16)))
    ms = rng.sample(range(10, 100), len(js))
    sym = rng.choice([(None,), (None, 2, 3), (2, 3, 0)])
    for j, m in zip(js, ms):
        flat[i][0]['rings'].append((rng.choice(sym), m, True))
        flat[j][0]['rings'].append((None, m, True))
    return ast


def cases(seed, tier, shard, nshards):
    cfg = SIZES[tier]
    k = 0
    for n in range(1, cfg['exh_n'] + 1):
        for ast in G.enumerate_small(n):
            if k % nshards == shard:
                yield {'kind': 'exh', 'ast': ast, 'features': sorted(G.features(ast))}
            k += 1
            if n <= cfg['exh_ring_n'] and n >= 3:
                for (i, j, o, pct) in _ring_variants(ast):
                    k += 1
                    if k % nshards == shard:
                        a = _with_ring(ast, i, j, o, pct)
                        yield {'kind': 'exh_ring', 'ast': a, 'features': sorted(G.features(a))}
    rng = random.Random(f'{seed}:C04:{tier}:{shard}')
    count = cfg['rand'] // nshards
    made = 0
    while made < count:
        n = rng.choice([2, 3, 5, 8, 12, 18, cfg['max_nodes']])
        ast = G.random_ast(rng, n, max_depth=rng.randint(1, cfg['depth']), p_branch=rng.choice([0.15, 0.35, 0.6]),
                           p_bond=rng.choice([0.1, 0.4, 0.8]), n_rings=rng.choice([0, 0, 1, 2, 4]),
                           p_annot=rng.choice([0, 0, 0.3]), annot_fn=lambda r: A.random_annotation(r, 'base'),
                           p_trailing_branch=rng.choice([0, 0.15]), p_pct=rng.choice([0.1, 0.5]))
        try:
            G.denote(ast)
        except G.RefSyntaxError:
            continue
        made += 1
        yield {'kind': 'rand', 'ast': ast, 'features': sorted(G.features(ast))}
    for _ in range(max(2, cfg['rand'] // (40 * nshards))):
        ast = hub_case(rng)
        if ast is None:
            continue
        try:
            G.denote(ast)
        except G.RefSyntaxError:
            continue
        yield {'kind': 'hub', 'ast': ast, 'features': sorted(G.features(ast)) + ['hub_node_with_8plus_ring_markers']}
    # stress: long chains with many rings
    if shard == 0:
        for size in ([60, 150] if tier == 'quick' else [60, 150, 400, 1000]):
            ast = G.random_ast(rng, size, max_depth=4, p_branch=0.3, p_bond=0.3, n_rings=4)
            try:
                G.denote(ast)
            except G.RefSyntaxError:
                continue
            yield {'kind': 'stress', 'ast': ast, 'features': sorted(G.features(ast)) + ['stress']}


def run(case):
    import cgsmiles
    ast = case['ast']
    viol, g, s = oracles.read_and_compare(cgsmiles, ast, exact=True)
    nodes, edges = G.denote(ast)
    feats = [f for f in case['features'] if not f.startswith('depth')]
    return {'violations': viol, 'nontrivial': len(nodes) >= 2,
            'cls': (tuple(feats), len(nodes), len(edges)), 'sample': s}
