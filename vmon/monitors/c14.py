"""C14 - annotations mean the same however written and reach the graphs unchanged."""
import itertools
import random

from ..gen import mol as M
from ..gen import annot as A
from ..gen import grammar as G
from ..oracles import V
from . import molcommon as MC
from .. import contracts

PROPERTY = 'C14'
LEVEL = 'exploration'
RULE = ('(shared atoms) molecules cut with [!]-shared atoms whose copies carry annotations (free keys under different names, a weight on one copy or the same weight on both): the merged atom shows everything written on any of the fragment atoms it is a copy of. '
        '(i) spellings: a random assignment of values to the keys reserved at that level (base graph: q,w; fragment atoms, '
        'atomistic and coarse: w,x) plus 0-3 free keys is written in every positional-prefix length and several keyword '
        'orders, with numeric spellings such as +1, -0.25, 1e-1, .5 (plus spellings with a keyword entry before an un-named one: rejected = counted, accepted = must agree); all spellings must give equal attribute dicts on the '
        'graphs returned by read_cgsmiles / read_fragments, equal to an independent model (defaults charge 0.0 / weight 1.0, '
        'reserved numerics are float, free keys verbatim strings). (ii) end-to-end: random units with annotated atoms are '
        'polymerised over annotated base graphs (1..8 uses of a fragment, multiplied nodes); after resolve() every coarse '
        'node still carries its annotation and every copy of an annotated template atom carries weight / chirality / free '
        'keys. distinct = (level, assigned keys, #spellings) resp. (feature set, reuse count); non-trivial = at least one key.')
ASSUMPTIONS = ['free keys never collide with reserved long names (weight, charge, chiral, fragname) or internal attribute names',
               'positional values are written before keyword entries',
               'q inside coarse FRAGMENTS is parsed with the fragment dialect (no reserved q); reported as diagnostic only']
MECHANISMS = [('cgsmiles.dialects', '_parse_dialect_string'), ('cgsmiles.dialects', 'check_and_cast_types'),
              ('cgsmiles.cgsmiles_utils', 'read_fragment_cgsmiles'), ('cgsmiles.pysmiles_utils', 'read_fragment_smiles')]
SIZES = {'quick': 12000, 'thorough': 150000}


def all_spellings(rng, level, res, free, limit=8):
    out = []
    npos_max = len(A.RESERVED[level])
    for npos in range(npos_max + 1):
        for _ in range(2):
            out.append(A.spell(rng, level, res, free, n_positional=npos))
    uniq = []
    for s in out:
        if s not in uniq:
            uniq.append(s)
    return uniq[:limit]


def interleaved(rng, spellings):
    """spellings in which a keyword entry stands BEFORE an entry written without its key (the un-named entries keep their
    order among themselves).  The documentation likens annotations to Python arguments, where this order is not allowed;
    the library accepts it.  So: if such a spelling is accepted it must mean what its keyword form means, a SyntaxError is
    a rejection and only counted."""
    out = []
    for sp in spellings:
        ents = sp.split(';')
        pos = [e for e in ents if '=' not in e]
        kw = [e for e in ents if '=' in e]
        if not pos or not kw:
            continue
        for _ in range(2):
            slots = sorted(rng.sample(range(len(ents)), len(pos)))
            if slots == list(range(len(pos))):
                continue
            merged, pi, ki = [], iter(pos), iter(kw)
            for i in range(len(ents)):
                merged.append(next(pi) if i in slots else next(ki))
            t = ';'.join(merged)
            if t not in out:
                out.append(t)
    return out[:4]


UNITS3 = {'PEO': '[$]COC[$]', 'PE': '[$]CC[$]', 'PP': '[$]CC(C)[$]', 'PVA': '[$]CC(O)[$]'}


def three_level_case(rng):
    """base graph -> coarse fragments whose beads carry annotations -> atoms: the annotations written on the beads of the
    MIDDLE level must still be on them when that graph comes back as the coarse graph of the last step (and in what
    resolve_all / resolve_iter hand out afterwards)"""
    units = rng.sample(sorted(UNITS3), rng.randint(1, 3))
    mids, expect = {}, {}
    for mi in range(rng.randint(1, 2)):
        beads = []
        for bi in range(rng.randint(1, 3)):
            t, attrs = A.random_annotation(rng, 'frag', p_reserved=0.7)
            u = rng.choice(units)
            beads.append('[#%s%s]' % (u, ';' + t if t else ''))
            expect['M%d|%d' % (mi, bi)] = {k: v for k, v in attrs.items()}
        mids['M%d' % mi] = '[$]' + beads[0] + ''.join(beads[1:]) + '[$]'
    names = sorted(mids)
    top = ''.join('[#%s]' % rng.choice(names) for _ in range(rng.randint(1, 4)))
    string = '{' + top + '}.{' + ','.join('#%s=%s' % kv for kv in mids.items()) + '}.{' + ','.join('#%s=%s' % (u, UNITS3[u]) for u in units) + '}'
    return dict(kind='three_level', string=string, expect=expect, driver=rng.choice(['resolve', 'resolve_iter', 'resolve_all']),
                features=['three_levels_annotated_middle_beads'], nkeys=sum(len(v) for v in expect.values()))


def run_three_level(case):
    from cgsmiles import MoleculeResolver
    contracts.clear()
    viol, seen = [], 0
    s = case['string']
    try:
        r = MoleculeResolver.from_string(s)
        if case['driver'] == 'resolve':
            r.resolve()
            cg, aa = r.resolve()
        elif case['driver'] == 'resolve_iter':
            cg, aa = list(r.resolve_iter())[-1]
        else:
            cg, aa = r.resolve_all()
        for n, d in cg.nodes(data=True):
            m = d.get('mapping') or []
            if len(m) != 1:
                continue
            exp = case['expect'].get('%s|%s' % (m[0][0], m[0][1]))
            if exp is None:
                continue
            seen += 1
            bad = {k: (d.get(k, '<missing>'), v) for k, v in exp.items() if d.get(k, '<missing>') != v or type(d.get(k)) is not type(v)}
            if bad:
                viol.append(V('c14.middle_level_annotation_lost', f'{s} [{case["driver"]}]: bead {n} of the coarse graph returned with the last level (copy of bead {m[0][1]} of {m[0][0]}): (found, written) {bad}'))
                break
    except Exception as err:
        viol.append(V('c14.e2e_exception.' + type(err).__name__, f'{s} [{case["driver"]}] raised {type(err).__name__}: {err}'))
    contracts.clear()
    return {'violations': viol, 'nontrivial': seen > 0, 'cls': ('three_level', case['driver'], len(case['expect'])), 'sample': s,
            'counters': {'annotated_middle_beads_checked': seen}}


def e2e_case(rng):
    units = {}
    expect_atoms = {}
    has_h = False
    single_atom = False
    for ui in range(rng.randint(1, 2)):
        for _ in range(50):
            if rng.random() < 0.4:
                # units with an aromatic ring: aliphatic atoms written directly in front of aromatic ones (Sc, Cn, Cc ...)
                g = M.gen_molecule(rng, max_heavy=rng.choice([8, 10]), p_arom=0.9, p_ring=0.1, charged=False, triple=False)
                # aryl thioethers / thiols: 'Sc' is the one everyday pair of an aliphatic and an aromatic atom that also spells an element
                cand = [n for n in g if not g.nodes[n]['aromatic'] and g.nodes[n]['element'] == 'C' and g.degree(n) <= 2
                        and all(d['order'] == 1 for _, _, d in g.edges(n, data=True)) and any(g.nodes[x]['aromatic'] for x in g[n])]
                if cand and rng.random() < 0.7:
                    n = rng.choice(cand)
                    g.nodes[n].update(element='S', cap=2, hcount=2 - g.degree(n))
            else:
                # a third of the units carry formally charged atoms ([N+], [O-]) whose charges need not cancel: the charge
                # of the BASE node is what was written there (or the default 0), whatever its atoms add up to
                g = M.gen_molecule(rng, max_heavy=rng.choice([1, 1, 2, 3, 4, 6]), p_arom=0.0, p_ring=0.2, charged=rng.random() < 0.33)
            slots = [n for n in g for _ in range(g.nodes[n]['hcount'])]
            if len(slots) >= 2:
                break
        else:
            return None
        a = rng.choice(slots)
        slots.remove(a)
        b = rng.choice(slots)
        desc = {}
        desc.setdefault(a, []).append(('$', '', 1))
        desc.setdefault(b, []).append(('$', '', 1))
        annots = {}
        for n in g:
            if rng.random() < 0.5 and not g.nodes[n].get('aromatic'):
                t, attrs = A.random_annotation(rng, 'frag')
                if t:
                    annots[n] = (t, attrs)
        r = M.render_fragment(rng, g, list(g.nodes), desc, opts={'leading': False, 'explicit_single': 0.0, 'bracket_p': rng.choice([0.0, 0.5])})
        # hydrogens that need an annotation are written explicitly: C([H;w=0]); they count as atoms of the text
        h_annots = {}
        for n in g:
            if g.nodes[n]['hcount'] - sum(x[2] for x in desc.get(n, [])) >= 1 and rng.random() < 0.3:
                t, attrs = A.random_annotation(rng, 'frag', p_reserved=0.9)
                if t:
                    h_annots[n] = (t, attrs)
        toks = []
        text_atoms = []          # what sits at each atom position of the text: ('heavy', n) or ('H', n)
        src = list(r['tokens'])
        k = 0
        while k < len(src):
            t = src[k]
            if t[0] == 'atom':
                n = t[2]
                if n in annots:
                    d = g.nodes[n]
                    # the documentation writes annotated atoms without a hydrogen count ([C;0.5]); hydrogens are recomputed
                    txt = M.atom_text(d, d['hcount'] if rng.random() < 0.5 else 0, bracket=True)
                    toks.append(('atom', txt[:-1] + ';' + annots[n][0] + ']', n))
                else:
                    toks.append(t)
                text_atoms.append(('heavy', n))
                k += 1
                while k < len(src) and src[k][0] in ('ring', 'desc') and src[k][2] == n:
                    toks.append(src[k])
                    k += 1
                if n in h_annots:
                    toks += [('open',), ('atom', '[H;' + h_annots[n][0] + ']', ('H', n)), ('close',)]
                    text_atoms.append(('H', n))
                continue
            toks.append(t)
            k += 1
        name = 'U%d' % ui
        units[name] = ''.join('(' if t[0] == 'open' else ')' if t[0] == 'close' else t[1] for t in toks)
        expect_atoms[name] = {}
        for pos, (kind_, n) in enumerate(text_atoms):
            if kind_ == 'heavy' and n in annots:
                expect_atoms[name][str(pos)] = annots[n][1]
            elif kind_ == 'H':
                expect_atoms[name][str(pos)] = h_annots[n][1]
        if h_annots:
            has_h = True
        if len(g) == 1 and annots:
            single_atom = True
    names = sorted(units)
    n_nodes = rng.randint(1, 5)
    # (multiplied branches too: the copies of an annotated anchor carry the anchor's annotation)
    ast = G.random_ast(rng, n_nodes, max_depth=1, p_branch=rng.choice([0.2, 0.5]), p_bond=0.0, p_mult_node=0.3, p_mult_branch=rng.choice([0.0, 0.6]), names=names,
                       p_annot=0.6, annot_fn=lambda r: A.random_annotation(r, 'base'), max_mult=4)
    virtual_node = rng.random() < 0.3
    if virtual_node:
        # a fragment-less node joined by an order-0 edge: its annotations stay on it like on any base-graph node
        t_, attrs_ = A.random_annotation(rng, 'base', p_reserved=0.8)
        ast.append(G.el('VX', annot=t_, attrs=attrs_, bond=0))
    nodes, edges = G.denote(ast)
    feats = G.features(ast)
    uses = {}
    for nd in nodes:
        uses[nd['name']] = uses.get(nd['name'], 0) + 1
    string = G.to_string(ast) + '.{' + ','.join('#%s=%s' % kv for kv in units.items()) + '}'
    from .. import oracles
    via = rng.choice([None, None, 'read', 'rebuilt'])
    return dict(kind='e2e', via_graph=via, string=string, base_expect=[oracles.expected_attrs(nd) for nd in nodes], atom_expect=expect_atoms,
                features=sorted({'e2e', 'reuse_%d' % min(max(uses.values()), 8)} | ({'node_mult'} if 'node_mult' in feats else set()) | ({'branch_mult'} if G.has_multiplier(ast) and 'node_mult' not in feats else set()) | ({'explicit_annotated_hydrogen'} if has_h else set()) | ({'annotated_single_atom_fragment'} if single_atom else set()) | ({'base_graph_via_from_graph'} if via else set()) | ({'annotated_fragment_less_node'} if virtual_node else set())),
                reuse=max(uses.values()))


def cases(seed, tier, shard, nshards):
    rng = random.Random(f'{seed}:C14:{tier}:{shard}')
    made = 0
    while made < SIZES[tier] // nshards:
        if rng.random() < 0.7:
            level = rng.choice(['base', 'frag', 'frag_coarse'])
            lv = 'base' if level == 'base' else 'frag'
            res, free = A.random_assignment(rng, lv, p_reserved=rng.choice([0.3, 0.7, 1.0]), max_free=3)
            c = dict(kind='spell', level=level, spellings=all_spellings(rng, lv, res, free), expect=A.expected(lv, res, free),
                     features=sorted({'level_' + level} | {'key_' + k for k in res} | ({'free_keys'} if free else set())),
                     nkeys=len(res) + len(free))
            c['interleaved'] = interleaved(rng, c['spellings'])
            if c['interleaved']:
                c['features'] = sorted(set(c['features']) | {'keyword_entry_before_unnamed_entry'})
        elif rng.random() < 0.25:
            # annotations on atoms that are shared between fragments ([!]): the merged atom is a copy of each of them
            c = None
            for _ in range(20):
                c = MC.random_shared_case(rng, rng.choice([4, 6, 10]), ctor=rng.choice(['string', 'from_graph']), annotate=True)
                if c is not None and c.get('atom_annotations'):
                    break
                c = None
            if c is None:
                continue
            c = dict(c, kind='shared_annotated')
        elif rng.random() < 0.15:
            c = three_level_case(rng)
        else:
            c = e2e_case(rng)
            if c is None:
                continue
        made += 1
        yield c


def read_attrs(level, text):
    import cgsmiles
    if level == 'base':
        g = cgsmiles.read_cgsmiles('{[#A%s][#B]}' % (';' + text if text else ''))
        return dict(g.nodes[0])
    if level == 'frag':
        g = cgsmiles.read_fragments('{#T=[$]C[C%s]C}' % (';' + text if text else ''))['T']
        return dict(g.nodes[1])
    g = cgsmiles.read_fragments('{#T=[$][#X][#Y%s][#Z]}' % (';' + text if text else ''), all_atom=False)['T']
    return dict(g.nodes[1])


def run(case):
    from cgsmiles import MoleculeResolver
    contracts.clear()
    viol = []
    if case['kind'] == 'shared_annotated':
        res = MC.resolve_case(case)
        txt = MC.case_text(case)
        seen = 0
        if res['error']:
            if MC.EXPECTED_REJECTION not in res['error']:
                viol.append(V('c14.e2e_exception.' + res['error'].split(':')[0], f'{txt} raised {res["error"]}'))
        else:
            found, seen = MC.check_atom_annotations(case, res['aa'], 'c14')
            viol += [V(cl, f'{txt} :: {msg}') for cl, msg in found]
        contracts.clear()
        return {'violations': viol, 'nontrivial': seen > 0, 'cls': ('shared_annotated', tuple(case['features'])), 'sample': txt,
                'counters': {'annotated_copies_checked': seen}}
    if case['kind'] == 'three_level':
        return run_three_level(case)
    if case['kind'] == 'spell':
        exp = case['expect']
        first = None
        for sp in case['spellings']:
            try:
                got = read_attrs(case['level'], sp)
            except Exception as err:
                viol.append(V('c14.exception.' + type(err).__name__, f'annotation {sp!r} at level {case["level"]} raised {type(err).__name__}: {err}'))
                break
            for k, v in exp.items():
                if k not in got or got[k] != v or type(got[k]) is not type(v):
                    viol.append(V('c14.value', f'annotation {sp!r} at level {case["level"]}: {k}={got.get(k, "<missing>")!r} ({type(got.get(k)).__name__}), expected {v!r}'))
                    break
            rel = {k: got.get(k) for k in set(exp) | {'charge', 'weight', 'chiral'} if k in got}
            if first is None:
                first = (sp, rel)
            elif rel != first[1]:
                viol.append(V('c14.spellings_differ', f'{sp!r} gives {rel} but {first[0]!r} gives {first[1]} (level {case["level"]})'))
            if viol:
                break
        rejected, accepted = 0, 0
        for sp in case.get('interleaved', ()):
            if viol:
                break
            try:
                got = read_attrs(case['level'], sp)
            except SyntaxError:
                rejected += 1
                continue
            except Exception as err:
                viol.append(V('c14.exception.' + type(err).__name__, f'annotation {sp!r} at level {case["level"]} raised {type(err).__name__}: {err}'))
                break
            accepted += 1
            rel = {k: got.get(k) for k in set(exp) | {'charge', 'weight', 'chiral'} if k in got}
            if first is not None and rel != first[1]:
                viol.append(V('c14.spellings_differ', f'{sp!r} is accepted and gives {rel} but {first[0]!r} gives {first[1]} (level {case["level"]})'))
        contracts.clear()
        return {'violations': viol, 'evaluations': len(case['spellings']) + accepted, 'nontrivial': case['nkeys'] > 0,
                'counters': {'interleaved_spellings_accepted_and_compared': accepted}, 'rejected': {'interleaved_spelling_not_accepted': rejected} if rejected else {},
                'cls': (case['level'], tuple(case['spellings'])),
                'sample': {'level': case['level'], 'spellings': case['spellings'], 'expect': exp}}
    s = case['string']
    try:
        if case.get('via_graph'):
            import cgsmiles
            cut = s.index('}.{')
            base = cgsmiles.read_cgsmiles(s[:cut + 1])
            if case['via_graph'] == 'rebuilt':
                # the same graph built by hand: nodes inserted in another order
                import networkx as nx
                import random as _r
                nodes = list(base.nodes(data=True))
                _r.Random(len(s)).shuffle(nodes)
                g2 = nx.Graph()
                g2.add_nodes_from((n, dict(d)) for n, d in nodes)
                g2.add_edges_from((a, b, dict(d)) for a, b, d in base.edges(data=True))
                base = g2
            cg, aa = MoleculeResolver.from_graph(s[cut + 2:], base).resolve()
            s = s + f' (base graph passed to from_graph, {case["via_graph"]})'
        else:
            cg, aa = MoleculeResolver.from_string(s).resolve()
    except SyntaxError as err:
        contracts.clear()
        return {'violations': [], 'rejected': {'not_resolvable': 1}, 'nontrivial': False, 'cls': ('rejected',), 'sample': s}
    except Exception as err:
        contracts.clear()
        return {'violations': [V('c14.e2e_exception.' + type(err).__name__, f'{s} raised {type(err).__name__}: {err}')], 'cls': ('exc',)}
    for i, exp in enumerate(case['base_expect']):
        got = cg.nodes[i] if i in cg else {}
        for k, v in exp.items():
            if got.get(k, '<missing>') != v:
                viol.append(V('c14.base_annotation_lost', f'{s}: coarse node {i} has {k}={got.get(k, "<missing>")!r}, written {v!r}'))
                break
        if viol:
            break
    ncopies = 0
    for k in cg.nodes:
        fname = cg.nodes[k].get('fragname')
        want = case['atom_expect'].get(fname, {})
        gr = cg.nodes[k].get('graph')
        if gr is None:
            continue
        found = {}
        for n in gr.nodes:
            for ent in aa.nodes[n].get('mapping') or []:
                if ent[0] == fname:
                    found[str(ent[1])] = n
        for tidx, exp in want.items():
            n = found.get(tidx)
            if n is None:
                viol.append(V('c14.copy_missing', f'{s}: coarse node {k} ({fname}) has no copy of annotated template atom {tidx}'))
                break
            ncopies += 1
            for key, v in exp.items():
                if aa.nodes[n].get(key, '<missing>') != v:
                    viol.append(V('c14.atom_annotation_lost', f'{s}: copy {n} of atom {tidx} of {fname} in coarse node {k} has {key}={aa.nodes[n].get(key, "<missing>")!r}, written {v!r}'))
                    break
        # atoms written WITHOUT annotation (plain or in brackets, before or after an annotated one): documented defaults
        for tidx, n in found.items():
            if tidx in want or aa.nodes[n].get('element') == 'H' or viol:
                continue
            d = aa.nodes[n]
            if d.get('weight', 1) != 1 or d.get('chiral') is not None:
                viol.append(V('c14.default_not_applied', f'{s}: copy {n} of atom {tidx} of {fname}, written without annotation, has weight={d.get("weight")!r} chiral={d.get("chiral")!r}'))
        if viol:
            break
    contracts.clear()
    return {'violations': viol, 'nontrivial': True, 'cls': s, 'sample': s,
            'counters': {'annotated_copies_checked': ncopies}}
