"""C17 - the sampler honours target weight, reactivities, terminals and seed."""
import collections
import hashlib
import json
import os
import random
import subprocess
import sys

from ..oracles import V
from .. import hooks, env, util
from . import samplercommon as SC

PROPERTY = 'C17'
LEVEL = 'exploration'
RULE = ('closed random sampler configurations as in C16 (reactivity tables with zeros, conditional tables, terminal sets, given '
        'and element-derived masses, targets of 1-40 average fragment masses offset by 0.37 of one, and - for given masses, which are multiples of 0.5 so that sums are exact - targets that ARE a sum of fragment masses or 0, seeds). Per sample: (i) every inter-fragment bond '
        '(site, partner): site has reactivity > 0 whenever a table is supplied, partner has conditional reactivity > 0 whenever '
        'the site has a conditional table; the same is checked on every weighted-choice event of the hooked selector; (ii) '
        'summed mass of the fragments added after the start fragment >= target and < target without the last one; (iii) '
        'element-derived masses equal the generator\'s own formula mass (its atoms and hydrogen counts; hand-written units with '
        'lower-case benzene, pyridine, pyrrole-type [nH] and imidazole rings have tabulated masses; atoms + hydrogens completing the fragment as a stand-alone '
        'molecule); (iv) an atom that received a terminal fragment offers no descriptor afterwards, an atom that grew '
        'otherwise offers no terminal descriptor; (v) construct-and-sample with the same seed is repeated in-process with '
        'other samplers, seeds, random calls and resolver calls in between, and (history cases) alone in freshly forked '
        'processes under 3 (thorough 8) hash seeds: identical canonical dumps. distinct = (feature set, blocks bucket); '
        'non-trivial = at least one growth step.')
ASSUMPTIONS = ['mass of a fragment = its atoms plus the hydrogens that complete it as a stand-alone molecule (unused descriptors become H)',
               'independent mass table vmon/gen/mol.py MASS; tolerance 0.02 per atom against the periodic table used by the code',
               'growth = every fragment after the start fragment, as the documented loop counts']
MECHANISMS = [('cgsmiles.sample', '_select_bonding_operator'), ('cgsmiles.sample', 'MoleculeSampler.sample'),
              ('cgsmiles.sample', 'MoleculeSampler.add_fragment'), ('cgsmiles.sample', 'MoleculeSampler.__init__'),
              ('cgsmiles.pysmiles_utils', 'compute_mass')]
REQUIRED_COUNTERS = ['samples_returned', 'bonds_checked']
CASE_TIMEOUT = 3600      # one case is a whole history with reference runs in forked processes
SIZES = {'quick': dict(n=1900, histories=16, hist_len=6, seeds=['0', '3', 'random']),
         'thorough': dict(n=50000, histories=160, hist_len=12, seeds=['0', '1', '2', '3', '42', 'random', 'random', 'random'])}


def setup():
    SC.install_hooks()


def cases(seed, tier, shard, nshards):
    cfg = SIZES[tier]
    rng = random.Random(f'{seed}:C17:{tier}:{shard}')
    made = 0
    while made < cfg['n'] // nshards:
        c = SC.random_config(rng)
        if c is None:
            continue
        made += 1
        c['kind'] = 'single'
        yield c
    for _ in range(max(1, cfg['histories'] // nshards)):
        cs = []
        while len(cs) < cfg['hist_len']:
            c = SC.random_config(rng)
            if c is not None:
                cs.append(c)
        yield dict(kind='history', configs=cs, seeds=cfg['seeds'], features=['history'], hseed=rng.randrange(10 ** 6))


def weight(table, d):
    return table.get(d, 0)


def run_single(cfg):
    SC.LOG.clear()
    SC.CHOICES.clear()
    SC.FAIL.clear()
    viol, counters = [], collections.Counter()
    txt = f"{cfg['frag_string']} poly={cfg['polymer_reactivities']} cond={cfg['fragment_reactivities']} term={cfg['terminal_bonds']} masses={cfg['fragment_masses']} seed={cfg['seed']} target_units={cfg['target_units']} exact_target={cfg.get('exact_target')}"
    try:
        sampler = SC.make_sampler(cfg)
    except Exception as err:
        return {'violations': [V('c17.constructor_exception.' + type(err).__name__, f'{txt}: {type(err).__name__}: {err}')], 'cls': 'ctor_exc'}
    masses = dict(sampler.fragment_masses)
    # library key of every fragment, by the 'fragname' attribute its atoms carry (a caller's keys need not repeat it)
    attr_of = {key: next((d.get('fragname') for _, d in t.nodes(data=True)), key) for key, t in sampler.fragment_dict.items()}
    key_of = {a: k for k, a in attr_of.items()}
    if len(key_of) == len(attr_of) and any(k != a for k, a in attr_of.items()):
        counters['libraries_keyed_unlike_fragname'] += 1
    else:
        key_of = {}
    # (iii) mass model
    if cfg['all_atom'] and not cfg['fragment_masses']:
        for name, t in sampler.fragment_dict.items():
            want = (cfg.get('unit_masses') or {}).get(attr_of.get(name, name))
            if want is None:
                want = SC.standalone_mass(t)
            tol = 0.02 * (len(t) + 8)
            if want == want and abs(masses.get(name, float('nan')) - want) > tol:
                viol.append(V('c17.mass', f'{txt}: element-derived mass of {name} is {masses.get(name)}, independent table gives {want:.3f}'))
        counters['masses_checked'] += len(masses)
        if cfg['seed'] % 4 == 0 and not viol:
            # a second sampler from a library DERIVED from the first one's (graph.copy() of every fragment, one atom replaced
            # by its heavier congener): its masses are those of the edited fragments
            from cgsmiles import MoleculeSampler
            lib2 = {name: t.copy() for name, t in sampler.fragment_dict.items()}
            pick = None
            for el_, new_, delta in (('O', 'S', 32.06 - 15.999), ('C', 'Si', 28.0855 - 12.011)):
                cand = [(name, n) for name, t in lib2.items() for n, d in t.nodes(data=True)
                        if d.get('element') == el_ and not d.get('aromatic') and d.get('charge', 0) == 0]
                if cand:
                    pick = cand[cfg['seed'] // 4 % len(cand)] + (new_, delta)
                    break
            if pick:
                name, n, new_, delta = pick
                lib2[name].nodes[n]['element'] = new_
                try:
                    s2 = MoleculeSampler(lib2, cfg['polymer_reactivities'], fragment_reactivities=cfg['fragment_reactivities'],
                                         terminal_bonds=list(cfg['terminal_bonds']), all_atom=True, seed=cfg['seed'])
                    got, want = s2.fragment_masses.get(name), masses[name] + delta
                    counters['masses_of_a_derived_library_checked'] += 1
                    if got is None or abs(got - want) > 0.05:
                        viol.append(V('c17.mass', f'{txt}: a second sampler built from a copy of the library in which atom {n} of {name} was replaced by {new_}: mass of {name} is {got}, '
                                      f'expected {want:.3f} (the unedited fragment has {masses[name]:.3f})'))
                    for other in lib2:
                        if other != name and abs(s2.fragment_masses.get(other, float('nan')) - masses[other]) > 1e-6:
                            viol.append(V('c17.mass', f'{txt}: second sampler from a copied library: mass of the unedited fragment {other} is {s2.fragment_masses.get(other)}, was {masses[other]}'))
                            break
                except Exception as err:
                    viol.append(V('c17.constructor_exception.' + type(err).__name__, f'{txt}: second sampler from a copied, edited library: {type(err).__name__}: {err}'))
    target = SC.target_of(cfg, sampler)
    try:
        mol = sampler.sample(target, start_fragment=cfg['start_fragment'])
    except Exception:
        return {'violations': viol, 'rejected': {'dead_end_or_exception_judged_by_C16': 1}, 'nontrivial': False,
                'cls': ('dead_end', tuple(cfg['features'])), 'counters': dict(counters), 'sample': txt}
    counters['samples_returned'] += 1
    poly = {SC.norm(k): v for k, v in cfg['polymer_reactivities'].items()}
    cond = {SC.norm(k): {SC.norm(a): b for a, b in tbl.items()} for k, tbl in cfg['fragment_reactivities'].items()}
    term = {SC.norm(t) for t in cfg['terminal_bonds']}
    blocks = SC.blocks_of(mol)
    m = len(blocks)
    # (i) reactivities, from the bonds of the result
    got_terminal, grew_otherwise = set(), set()
    for u, v, d in mol.edges(data=True):
        fu, fv = mol.nodes[u].get('fragid'), mol.nodes[v].get('fragid')
        if fu == fv or not d.get('bonding'):
            continue
        if fu > fv:
            u, v = v, u
        site, partner = d['bonding']
        counters['bonds_checked'] += 1
        if poly and weight(poly, site) <= 0:
            viol.append(V('c17.zero_reactivity_site', f'{txt}: descriptor {site} with reactivity {poly.get(site, 0)} was used as growth site (bond {u}-{v})'))
        if site in cond and weight(cond[site], partner) <= 0:
            viol.append(V('c17.zero_conditional_partner', f'{txt}: partner {partner} has conditional reactivity {cond[site].get(partner, 0)} given {site} (bond {u}-{v})'))
        (got_terminal if partner in term else grew_otherwise).add(u)
    for ev in SC.CHOICES:
        if ev['table']:
            counters['weighted_choices'] += 1
            if ev['chosen'] not in ev['offered']:
                viol.append(V('c17.choice_not_offered', f'{txt}: chose {ev["chosen"]} from {ev["offered"]}'))
            elif ev['table'].get(ev['chosen'], 0) <= 0:
                viol.append(V('c17.choice_zero_weight', f'{txt}: chose {ev["chosen"]} with table weight {ev["table"].get(ev["chosen"], 0)} from {ev["offered"]}'))
    # (ii) stop rule
    def stop_rule(mol_, target_, tag_=''):
        blocks_ = SC.blocks_of(mol_)
        if not (set(mol_.nodes) == set(range(len(mol_))) and len(blocks_) >= 1):
            return
        names = [mol_.nodes[blocks_[k][0]].get('fragname') for k in sorted(blocks_)]
        added = [masses.get(key_of.get(nm, nm)) for nm in names[1:]]
        if all(x is not None for x in added):
            cw, early = 0.0, None
            eps = 0.0 if cfg.get('exact_target') is not None else 1e-6
            for i, x in enumerate(added):
                if cw >= target_ + eps and early is None:
                    early = i
                cw += x
            if cw < target_ - eps:
                viol.append(V('c17.stopped_below_target', f'{txt}{tag_}: added fragments {names[1:]} weigh {cw}, target {target_}'))
            if early is not None:
                viol.append(V('c17.grew_beyond_target', f'{txt}{tag_}: the target {target_} was already reached after {early} of {len(added)} added fragments'))
            if not added and target_ > eps:
                viol.append(V('c17.stopped_below_target', f'{txt}{tag_}: nothing was added although the target is {target_}'))
    stop_rule(mol, target)
    if cfg['seed'] % 3 == 2:
        # further molecules from the SAME sampler object: every call grows from nothing to its own target
        for k_, f_ in enumerate((1.0, 2.0, 0.5), 2):
            t_ = target * f_
            try:
                mol_k = sampler.sample(t_, start_fragment=cfg['start_fragment'])
            except Exception:
                break            # dead ends are C16's concern
            counters['further_samples_from_one_sampler'] += 1
            stop_rule(mol_k, t_, f' [call {k_} on one sampler object, target {t_}]')
    # (iv) terminal rules
    for a in got_terminal:
        left = list(mol.nodes[a].get('bonding') or [])
        if left:
            viol.append(V('c17.terminal_atom_still_open', f'{txt}: atom {a} received a terminal fragment but still offers {left}'))
            break
    for a in grew_otherwise - got_terminal:
        left = [x for x in (mol.nodes[a].get('bonding') or []) if x in term]
        if left:
            viol.append(V('c17.terminal_descriptor_not_withdrawn', f'{txt}: atom {a} grew by a non-terminal fragment but still offers terminal descriptors {left}'))
            break
    # (v) same seed again, with other RNG users in between
    d1 = util.canonical_dump(mol)
    random.random()
    try:
        other = dict(cfg, seed=cfg['seed'] + 1)
        SC.construct_and_sample(other)
    except Exception:
        pass
    random.seed(12345)
    try:
        d2 = util.canonical_dump(SC.construct_and_sample(cfg))
        if d1 != d2:
            viol.append(V('c17.seed_not_reproducible', f'{txt}: constructing and sampling twice with seed {cfg["seed"]} gave different molecules'))
    except Exception as err:
        viol.append(V('c17.seed_not_reproducible', f'{txt}: second construct-and-sample with the same seed raised {type(err).__name__}: {err}'))
    bucket = 1 if m <= 1 else 2 if m <= 3 else 10 if m <= 10 else 40
    return {'violations': viol, 'counters': dict(counters), 'nontrivial': m >= 2, 'cls': (tuple(cfg['features']), bucket), 'sample': txt}


def reference(jobs, hashseed):
    envv = dict(os.environ)
    envv['PYTHONHASHSEED'] = hashseed
    envv['PBR_VERSION'] = '0.0.0'
    p = subprocess.run([sys.executable, '-m', 'vmon.solo'], input=json.dumps(jobs), capture_output=True, text=True,
                       cwd=env.VERIF, env=envv, timeout=3000)
    if p.returncode != 0:
        raise RuntimeError('reference runner failed: ' + p.stderr[-800:])
    return json.loads(p.stdout)


def run_history(case):
    viol = []
    jobs = [dict(kind='sample', config=c) for c in case['configs']]
    refs = [reference(jobs, hs) for hs in case['seeds']]
    for k, hs in enumerate(case['seeds'][1:], 1):
        for j, (a, b) in enumerate(zip(refs[0], refs[k])):
            if a != b:
                viol.append(V('c17.hash_seed_dependent', f'{case["configs"][j]["frag_string"]} seed={case["configs"][j]["seed"]}: sample differs between PYTHONHASHSEED={case["seeds"][0]} and {hs}'))
                break
    rng = random.Random(case['hseed'])
    order = [i for i in range(len(case['configs'])) for _ in range(rng.choice([1, 2]))]
    rng.shuffle(order)
    steps = 0
    for i in order:
        try:
            got = hashlib.sha256(util.canonical_dump(SC.construct_and_sample(case['configs'][i])).encode()).hexdigest()
        except Exception as err:
            got = f'EXC:{type(err).__name__}:{str(err)[:200]}'
        steps += 1
        if got != refs[0][i]:
            c = case['configs'][i]
            viol.append(V('c17.history_dependent', f'{c["frag_string"]} seed={c["seed"]}: sample inside a history of other sampler calls ({got[:40]}) differs from the same call alone in a fresh process ({refs[0][i][:40]})'))
            break
        if rng.random() < 0.5:
            random.random()
    return {'violations': viol, 'evaluations': steps + len(jobs) * len(case['seeds']), 'nontrivial': True,
            'counters': {'reference_digests': len(jobs) * len(case['seeds']), 'history_steps': steps},
            'cls': [(c['frag_string'], c['seed']) for c in case['configs']],
            'sample': {'history': [c['frag_string'] for c in case['configs'][:3]], 'hash_seeds': case['seeds']}}


def run(case):
    if case.get('kind') == 'history':
        return run_history(case)
    return run_single(case)
