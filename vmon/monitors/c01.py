"""C01 - cutting a molecule into fragments and resolving gives the molecule back (three-way check)."""
import random

import networkx as nx

from ..gen import mol as M
from ..gen import grammar as G
from ..oracles import V
from . import molcommon as MC

PROPERTY = 'C01'
LEVEL = 'exploration'
RULE = ('random molecules over C N O S P F Cl Br with charged centres, chains, branches, aliphatic and aromatic rings, '
        'orders 1-3 (1-16 heavy atoms) x random connected partitions (1..6 fragments, <=4 cut bonds per pair) with '
        'uniquely labelled $x/$x or >x/<x pairs carrying the bond order x random SMILES renderings (start atom, '
        'neighbour order, ring digits 1-9/%nn, symbol at opening/closing digit, descriptors before/after/between ring '
        'digits, leading descriptors, explicit "-") x base graph as string (random DFS spelling), via from_graph '
        '(shuffled insertion) or from_fragment_dicts. Oracle: resolve(cut string), resolve(uncut single fragment) and '
        'the generator ground truth (element, charge, H count from an independent valence table, orders, 1.5 in '
        'aromatic rings) must be pairwise isomorphic. distinct = (feature set, #heavy, #fragments) classes; '
        'non-trivial = at least one cut bond.')
ASSUMPTIONS = ['aromaticity as documented (pysmiles DIME): the generator keeps every cycle other than its own benzene/pyridine-type '
               'rings free of a closed path of atoms that all carry a double bond',
               'independent valence table in vmon/gen/mol.py (C 4; N 3,5; O 2; S 2,4,6; P 3,5; halogens 1; N+ 4; O- 1)']
MECHANISMS = [('cgsmiles.read_fragments', 'strip_bonding_descriptors'), ('cgsmiles.resolve', 'MoleculeResolver.edges_from_bonding_descrpt'),
              ('cgsmiles.pysmiles_utils', 'rebuild_h_atoms'), ('cgsmiles.pysmiles_utils', 'read_fragment_smiles'),
              ('cgsmiles.graph_utils', 'merge_graphs')]
FINDING_FEATURES = {'fragments.ring_bond_symbol_leaks_into_descriptor': 'ringsym_digit_desc'}
SIZES = {'quick': dict(n=8000, max_heavy=[3, 6, 10, 16, 22]), 'thorough': dict(n=120000, max_heavy=[3, 6, 10, 16, 16, 22, 30])}


def cases(seed, tier, shard, nshards):
    cfg = SIZES[tier]
    rng = random.Random(f'{seed}:C01:{tier}:{shard}')
    for _ in range(cfg['n'] // nshards):
        if rng.random() < 0.12:
            # fused aromatic systems (naphthalene, quinoline, anthracene, phenanthrene skeletons) written in lower case
            case = MC.random_cut_case(rng, rng.choice([10, 14, 18]), mol_kw=dict(p_arom=0.95, p_fused=0.8), implicit_biaryl=0.5)
            if case is not None:
                case['features'] = sorted(set(case['features']) | {'fused_aromatic_rings'})
        elif rng.random() < 0.06:
            # pyrrole / imidazole type rings written in lower case with their [nH] (the spelling most SMILES tools emit); the
            # ring stays in one fragment, cuts may end on its atoms
            case = MC.random_cut_case(rng, rng.choice([8, 12]), allow_lower5=True, mode='het5_lower_kept')
            if case is not None and 'lower_case_kekule_ring' not in case['features']:
                case = None
        elif rng.random() < 0.05:
            # pyridone / quinone / tropone / uracil: lower-case rings with an exocyclic C=O, cut at that double bond or at
            # the substituents
            case = MC.random_cut_case(rng, 12, mode='lower_exo')
            if case is not None:
                case['features'] = sorted(set(case['features']) | {'lower_case_ring_with_exocyclic_double_bond'})
        else:
            case = MC.random_cut_case(rng, rng.choice(cfg['max_heavy']), implicit_biaryl=0.5)
        if case is not None:
            yield case


def run(case):
    viol = []
    truth = MC.truth_from_json(case['truth'])
    res_single = MC.resolve_single(case['single'])
    if res_single['error'] and 'lower_case_ring_with_exocyclic_double_bond' in case['features'] and MC.EXPECTED_REJECTION in res_single['error']:
        # the library turns some of these lower-case spellings down with its documented 'write the Kekule form' message
        # (N-substituted pyridones and uracils, for instance): outside the premise, counted
        return {'violations': [], 'rejected': {'lower_case_spelling_turned_down_for_the_uncut_molecule': 1}, 'nontrivial': False,
                'cls': ('rejected_lower_exo',), 'sample': case['single']}
    if res_single['error']:
        viol.append(V('c01.single_exception', f"uncut molecule {case['single']!r} raised {res_single['error']}"))
    elif res_single['problems'] or not M.same_molecule(res_single['heavy'], truth):
        viol.append(V('c01.single_vs_truth', f"uncut {case['single']!r} -> {M.describe(res_single['heavy'])} {res_single['problems']} "
                      f"but ground truth is {M.describe(truth)}"))
    res_cut = MC.resolve_case(case)
    if res_cut['error']:
        viol.append(V('c01.cut_exception', f"{MC.case_text(case)} raised {res_cut['error']}"))
    elif res_cut['problems'] or not M.same_molecule(res_cut['heavy'], truth):
        viol.append(V('c01.cut_vs_truth', f"{MC.case_text(case)} -> {M.describe(res_cut['heavy'])} {res_cut['problems']} "
                      f"but the uncut molecule {case['smiles']!r} is {M.describe(truth)}"))
    # the same fragments under other spellings of the base graph (another start node, branch order, ring markers)
    for alt in case.get('alt_base_strings', []):
        r2 = MC.resolve_case(dict(case, ctor='string', base_string=alt))
        if r2['error']:
            viol.append(V('c01.cut_exception', f"{alt}.{case['frag_string']} raised {r2['error']}"))
        elif r2['problems'] or not M.same_molecule(r2['heavy'], truth):
            viol.append(V('c01.base_spelling_dependent', f"{alt}.{case['frag_string']} -> {M.describe(r2['heavy'])}; the same fragments under {case['base_string']} / the uncut molecule give {M.describe(truth)}"))
    sib = case.get('sibling')
    if sib and not viol:
        # history: the same text with ONE descriptor on another atom, resolved right after; it denotes another molecule
        t2 = MC.truth_from_json(sib['truth'])
        r3 = MC.resolve_case(dict(case, frag_string=sib['frag_string']))
        if r3['error']:
            viol.append(V('c01.cut_exception', f"{case['base_string']}.{sib['frag_string']} ({sib['moved']}, resolved after {case['frag_string']}) raised {r3['error']}"))
        elif r3['problems'] or not M.same_molecule(r3['heavy'], t2):
            viol.append(V('c01.cut_vs_truth', f"{case['base_string']}.{sib['frag_string']} ({sib['moved']}, resolved right after {case['frag_string']}) -> {M.describe(r3['heavy'])} {r3['problems']} "
                          f"but these fragments denote {M.describe(t2)}"))
    feats = tuple(sorted(f for f in case['features']))
    return {'violations': viol, 'nontrivial': case['ncuts'] > 0, 'cls': (feats, case['nheavy'], case['nfrag']),
            'sample': MC.case_text(case)}
