"""C12 - output numbering is canonical and results depend on the input alone (history + pure-function model)."""
import hashlib
import json
import os
import random
import re
import subprocess
import sys

from ..oracles import V
from .. import contracts, env, util
from . import molcommon as MC

PROPERTY = 'C12'
LEVEL = 'exploration'
RULE = ('each case is a HISTORY: 6-10 (thorough 25) logical inputs (cut, shared, virtual, ambiguous polymer strings; 30 % with one definition '
        'repeated under a second name that some coarse nodes use), each in up to '
        '4 presentations (whole string, whole string with permuted fragment definitions, from_graph, from_fragment_dicts with '
        'fragment dictionaries parsed once and SHARED by every later call), shuffled with repeats and interleaved with reader '
        'and sampler calls in one process. Oracle (pure-function model): the canonical dump (all node/edge attributes of fine '
        'and coarse graph, nested fragment graphs included) of every call must equal the dump of the same input computed alone '
        'in a freshly forked process, under PYTHONHASHSEED in {0,1,2,random} (thorough: 12 seeds); all presentations of one '
        'logical input must agree; shared fragment libraries are deep-compared before/after every call; the numbering/naming '
        'invariants (keys 0..n-1, contiguous blocks in base order, atom names element+index unique per coarse node) are checked '
        'by the post-state contract on every call, and additionally on 3200 (thorough 60000) single resolutions of the common '
        'resolver workload (cuts, shared atoms, virtual nodes, hierarchies with shared beads at coarse levels, polymer-style inputs). evaluations = resolver calls in histories + reference computations; '
        'distinct = distinct (logical input, presentation); non-trivial = every history.')
ASSUMPTIONS = ['from_graph is given the graph read_cgsmiles returns for the base string, from_fragment_dicts the dictionaries read_fragments returns',
               'a forked child after importing cgsmiles stands for a fresh process']
MECHANISMS = [('cgsmiles.graph_utils', 'sort_nodes_by_attr'), ('cgsmiles.graph_utils', 'set_atom_names_atomistic'),
              ('cgsmiles.graph_utils', 'merge_graphs'), ('cgsmiles.resolve', 'MoleculeResolver.from_graph'),
              ('cgsmiles.resolve', 'MoleculeResolver.from_fragment_dicts')]
REQUIRED_COUNTERS = ['resolve_calls_observed', 'reference_digests']
CASE_TIMEOUT = 3600      # one case is a whole history with reference runs in forked processes
NSHARDS = {'quick': 16, 'thorough': 16}
SIZES = {'quick': dict(histories=16, inputs=8, plain=3200, seeds=['0', '1', 'random']), 'thorough': dict(histories=160, inputs=25, plain=60000, seeds=['0', '1', '2', '3', '7', '42', '1234', 'random', 'random', 'random', 'random', 'random'])}


def setup():
    contracts.install()


def permute_fragments(rng, frag_string):
    blocks = re.findall(r"\{[^\}]+\}", frag_string)
    out = []
    for b in blocks:
        items = b[1:-1].split(',')
        orig = list(items)
        rng.shuffle(items)
        # several definitions under ONE name keep their relative order (the first one is the one that counts)
        name = lambda it: it.split('=', 1)[0]
        queues = {}
        for it in orig:
            queues.setdefault(name(it), []).append(it)
        items = [queues[name(it)].pop(0) for it in items]
        out.append('{' + ','.join(items) + '}')
    return '.'.join(out)


def add_alias(rng, base_string, frag_string):
    """a second name for one fragment: the same definition text twice in one block under different names, some (possibly
    all, possibly none) of the coarse nodes renamed to the alias"""
    if frag_string.count('{') != 1:
        return None
    items = frag_string[1:-1].split(',')
    k = rng.randrange(len(items))
    name, _, text = items[k].partition('=')
    name = name[1:]
    alias = name + 'q'
    if any(it.startswith('#' + alias + '=') for it in items):
        return None
    items.insert(rng.randrange(len(items) + 1), '#%s=%s' % (alias, text))
    spots = [m for m in re.finditer(r'\[#%s(?=[;\]])' % re.escape(name), base_string)]
    chosen = [m for m in spots if rng.random() < 0.5]
    for m in reversed(chosen):
        base_string = base_string[:m.start()] + '[#' + alias + base_string[m.end():]
    return base_string, '{' + ','.join(items) + '}'


def logical_input(rng):
    from ..gen import ambig
    r = rng.random()
    if r < 0.08:
        # joined only under the label-insensitive convention: every constructor has to pass the keyword on
        c = MC.random_label_insensitive_cut_case(rng, rng.choice([3, 6, 10]))
    elif r < 0.45:
        c = MC.random_cut_case(rng, rng.choice([3, 6, 10, 16]), ctor='string')
    elif r < 0.65:
        c = MC.random_shared_case(rng, rng.choice([6, 10]), ctor='string')
        if c:
            c = dict(c['shared'], features=c['features'], kind='shared')
    elif r < 0.8:
        c0 = MC.random_cut_case(rng, rng.choice([3, 6, 10]), ctor='string')
        c = MC.add_virtual(rng, c0) if c0 else None
    elif r < 0.9:
        # several levels, possibly with shared nodes at a coarse level (no hydrogens there to force a renumbering)
        m = MC.random_multilevel_case(rng, rng.choice([6, 10]), coarse_last=False)
        if m is None:
            return None
        cut = m['multi_string'].index('}.{')
        c = dict(kind='multilevel', base_string=m['multi_string'][:cut + 1], frag_string=m['multi_string'][cut + 2:], features=m['features'])
    else:
        a = ambig.random_case(rng, coarse=False, prefer=('WT', 'WH', 'WG', 'HT', 'NA', 'HB', 'HB2', 'LAB', 'EN2', 'LAB', 'SUR', 'MIX', 'SUR') if rng.random() < 0.5 else ())
        if rng.random() < 0.12:
            # two differently named end groups written with the bare-hydrogen shorthand in ONE block, around a short chain:
            # whichever of them is read first, both are hydrogens
            mid = rng.choice([('PE', '[$]CC[$]'), ('PEO', '[$]COC[$]'), ('NH', '[$]N[$]')])
            defs = [('HB', '[$]H'), mid, ('HE', '[$]H')]
            rng.shuffle(defs)
            k = rng.randint(1, 4)
            a = dict(string='{[#HB]' + ('[#%s]' % mid[0]) * k + '[#HE]}.{' + ','.join('#%s=%s' % d for d in defs) + '}', legacy=True,
                     features=['ambig_atomistic', 'two_bare_hydrogen_units_in_one_block', 'unit_HB'])
        if a is None:
            return None
        cut = a['string'].index('}.{')
        base, frag = a['string'][:cut + 1], a['string'][cut + 2:]
        c = dict(kind='ambig', base_string=base, frag_string=frag, kw={'legacy': a['legacy']}, features=a['features'])
    if c is None:
        return None
    if rng.random() < 0.3:
        al = add_alias(rng, c['base_string'], c['frag_string'])
        if al is not None:
            c = dict(c, base_string=al[0], frag_string=al[1], features=sorted(set(c['features']) | {'same_definition_under_two_names'}))
    base = dict(base_string=c['base_string'], frag_string=c['frag_string'])
    kw = c.get('kw', {})
    pres = [dict(base, ctor='string', kw=kw, pres='string'),
            dict(base, ctor='string', kw=kw, pres='string_permuted', frag_string=permute_fragments(rng, c['frag_string'])),
            dict(base, ctor='from_graph_of_string', kw=kw, pres='from_graph'),
            dict(base, ctor='from_fragment_dicts_shared', kw=kw, pres='from_fragment_dicts')]
    feats = set(c['features'])
    names = sorted(set(re.findall(r'\[#([^\];\]]+)', c['base_string'])))
    defined = sorted(set(re.findall(r'(?:(?<=\{)|(?<=,))#([^=,{}]+)=', re.findall(r"\{[^\}]+\}", c['frag_string'])[0])))
    pool = names if len(names) >= 2 else sorted(set(names) | set(defined))
    if len(pool) >= 2 and names:
        # a base graph OBJECT that the caller used before under other node names (resolved once, then renamed in place)
        shift = {nm: pool[(pool.index(nm) + 1) % len(pool)] for nm in pool}
        first_base = re.sub(r'\[#([^\];\]]+)', lambda m: '[#' + shift.get(m.group(1), m.group(1)), c['base_string'])
        pres.append(dict(base, ctor='from_graph_recycled', kw=kw, pres='from_graph_recycled', first_base=first_base))
        feats.add('base_graph_object_used_before_under_other_names')
    return dict(kind=c['kind'], presentations=pres, features=sorted(feats))


def cases(seed, tier, shard, nshards):
    cfg = SIZES[tier]
    rng = random.Random(f'{seed}:C12:{tier}:{shard}')
    for _ in range(max(1, cfg['histories'] // nshards)):
        inputs = []
        while len(inputs) < cfg['inputs']:
            li = logical_input(rng)
            if li is not None:
                inputs.append(li)
                if li['kind'] == 'ambig' and rng.random() < 0.6:
                    # the same text under the OTHER matching convention, as an input of its own in the same history
                    flipped = [dict(p, kw=dict(p.get('kw', {}), legacy=not p.get('kw', {}).get('legacy', True))) for p in li['presentations']]
                    inputs.append(dict(li, presentations=flipped, features=sorted(set(li['features']) | {'same_text_under_the_other_convention'})))
        order = []
        for i, li in enumerate(inputs):
            for j, _p in enumerate(li['presentations']):
                order += [(i, j)] * rng.choice([1, 1, 2])
        rng.shuffle(order)
        yield dict(inputs=inputs, order=order, seeds=cfg['seeds'], sampler_seed=rng.randrange(10 ** 6),
                   features=sorted({f for li in inputs for f in li['features']} | {'kind_' + li['kind'] for li in inputs}))
    yield from MC.resolver_workload(rng, cfg['plain'] // nshards)
    # large coarse nodes: more than a hundred (with hydrogens) and, once per run, more than a thousand atoms in one node,
    # halogens (two-letter elements) far down the block
    for _ in range(max(1, cfg['plain'] // (400 * nshards))):
        c = MC.random_cut_case(rng, rng.choice([40, 60]), max_parts=2, mol_kw=dict(p_arom=0.1, charged=False), plain_names=True)
        if c is not None:
            c['features'] = sorted(set(c['features']) | {'large_fragment'})
            yield c
    if shard == seed % nshards:
        n = rng.choice([335, 350, 400])
        yield dict(kind='cut', ctor='string', base_string='{[#A][#B][#A]}', frag_string='{#A=Cl' + 'C' * n + '(Br)[$],#B=[$]C(Cl)[$]}',
                   features=['huge_fragment_over_1000_atoms'], nheavy=2 * n + 7, nfrag=3)


class Shared:
    """fragment dictionaries parsed once per fragment string and handed to every later call"""
    def __init__(self):
        self.dicts = {}

    def get(self, frag_string):
        import cgsmiles
        if frag_string not in self.dicts:
            blocks = re.findall(r"\{[^\}]+\}", frag_string)
            self.dicts[frag_string] = [cgsmiles.read_fragments(b, all_atom=(i == len(blocks) - 1)) for i, b in enumerate(blocks)]
        return self.dicts[frag_string]


def hooks_count(name):
    contracts.STATS[name] += 1


def resolve_presentation(p, shared):
    import cgsmiles
    from cgsmiles import MoleculeResolver
    kw = p.get('kw', {})
    if p['ctor'] == 'string':
        r = MoleculeResolver.from_string(p['base_string'] + '.' + p['frag_string'], **kw)
    elif p['ctor'] == 'from_graph_of_string':
        r = MoleculeResolver.from_graph(p['frag_string'], cgsmiles.read_cgsmiles(p['base_string']), **kw)
    elif p['ctor'] == 'from_graph_recycled':
        g = cgsmiles.read_cgsmiles(p['first_base'])
        try:
            MoleculeResolver.from_graph(p['frag_string'], g, **kw).resolve_all()
        except Exception:
            pass           # whatever the other names meant: the caller now renames the nodes and uses the graph again
        target = cgsmiles.read_cgsmiles(p['base_string'])
        for n in target.nodes:
            g.nodes[n]['fragname'] = target.nodes[n]['fragname']
        r = MoleculeResolver.from_graph(p['frag_string'], g, **kw)
    else:
        lib = shared.get(p['frag_string'])
        before = [{name: (contracts.snap_graph(g), repr(sorted(g.graph.items(), key=repr))) for name, g in d.items()} for d in lib]   # nodes, edges and the graph-level attribute dict
        try:
            if len(p['base_string']) % 3 == 0:
                # a caller first hands over the COMPLETE string (with a block defining one more unit), which this constructor
                # refuses: whatever it does with it, the library stays the caller's
                extra = '.{#ZQ9=[$][#A][$]}' if kw.get('last_all_atom') is False else '.{#ZQ9=[$]CO}'
                try:
                    MoleculeResolver.from_fragment_dicts(p['base_string'] + extra, lib, **kw).resolve_all()
                except Exception:
                    pass
                hooks_count('complete_string_handed_to_from_fragment_dicts_first')
            r = MoleculeResolver.from_fragment_dicts(p['base_string'], lib, **kw)
            cg, aa = r.resolve_all()
            dump_ = util.canonical_dump(cg) + '\n' + util.canonical_dump(aa)
            # the caller then edits the RESULT in place (its own graphs): the library it handed in must not notice
            for g_ in (cg, aa):
                for _, d_ in g_.nodes(data=True):
                    for v_ in d_.values():
                        if isinstance(v_, (list, dict)):
                            v_.clear()
        finally:
            after = [{name: (contracts.snap_graph(g), repr(sorted(g.graph.items(), key=repr))) for name, g in d.items()} for d in lib]
            if after != before:
                contracts.rec('C12', 'c12.library_modified', f'the fragment dictionaries handed to from_fragment_dicts for {p["base_string"]}.{p["frag_string"]} were changed by constructing / resolving')
                shared.dicts.pop(p['frag_string'], None)
        return dump_
    cg, aa = r.resolve_all()
    return util.canonical_dump(cg) + '\n' + util.canonical_dump(aa)


def solo_job(p):
    """the same presentation for the reference runner (constructors without sharing)"""
    ctor = {'string': 'string', 'from_graph_of_string': 'string', 'from_graph_recycled': 'string', 'from_fragment_dicts_shared': 'from_fragment_dicts'}[p['ctor']]
    return dict(kind='resolve', case=dict(base_string=p['base_string'], frag_string=p['frag_string'], ctor=ctor), kw=p.get('kw', {}))


def reference_digests(jobs, hashseed):
    envv = dict(os.environ)
    envv['PYTHONHASHSEED'] = hashseed
    envv['PBR_VERSION'] = '0.0.0'
    p = subprocess.run([sys.executable, '-m', 'vmon.solo'], input=json.dumps(jobs), capture_output=True, text=True,
                       cwd=env.VERIF, env=envv, timeout=3000)
    if p.returncode != 0:
        raise RuntimeError('reference runner failed: ' + p.stderr[-800:])
    return json.loads(p.stdout)


def run(case):
    if 'inputs' not in case:
        # single resolutions of the common resolver workload: the numbering / naming invariants of the post-state contract
        from . import poststate
        return poststate.run('C12', case)
    import cgsmiles
    contracts.clear()
    viol = []
    before = contracts.STATS['resolve_calls']
    shared = Shared()
    # reference: every presentation alone, per hash seed
    jobs, index = [], {}
    for i, li in enumerate(case['inputs']):
        for j, p in enumerate(li['presentations']):
            index[(i, j)] = len(jobs)
            jobs.append(solo_job(p))
    refs = {}
    for hs in case['seeds']:
        refs.setdefault(hs, []).append(reference_digests(jobs, hs))
    nref = sum(len(x) for lst in refs.values() for x in lst)
    first = refs[case['seeds'][0]][0]
    for hs, lst in refs.items():
        for digs in lst:
            for k, (a, b) in enumerate(zip(first, digs)):
                if a != b:
                    viol.append(V('c12.hash_seed_dependent', f'{jobs[k]["case"]}: result under PYTHONHASHSEED={hs} differs from PYTHONHASHSEED={case["seeds"][0]} ({b[:40]} vs {a[:40]})'))
                    break
    for i, li in enumerate(case['inputs']):
        ds = {p['pres']: first[index[(i, j)]] for j, p in enumerate(li['presentations'])}
        if len(set(ds.values())) != 1:
            viol.append(V('c12.presentations_differ', f'{li["presentations"][0]["base_string"]}.{li["presentations"][0]["frag_string"]}: '
                          f'constructors / fragment definition orders give different graphs: { {k: v[:16] for k, v in ds.items()} }'))
    # history in this process
    rng = random.Random(case['sampler_seed'])
    ncalls = 0
    for step, (i, j) in enumerate(case['order']):
        p = case['inputs'][i]['presentations'][j]
        try:
            dump = resolve_presentation(p, shared)
            got = hashlib.sha256(dump.encode()).hexdigest()
        except Exception as err:
            got = f'EXC:{type(err).__name__}:{str(err)[:200]}'
        ncalls += 1
        want = first[index[(i, j)]]
        if got != want:
            viol.append(V('c12.history_dependent', f'step {step} of the history ({p["pres"]}: {p["base_string"]}.{p["frag_string"]}): '
                          f'{got[:60]} differs from the same input computed alone in a fresh process ({want[:60]})'))
            break
        # interleaved calls that must not matter
        k = rng.random()
        try:
            if k < 0.3:
                cgsmiles.read_cgsmiles(p['base_string'])
            elif k < 0.5:
                from cgsmiles import MoleculeSampler
                MoleculeSampler.from_fragment_string('{#PEO=[$]COC[$],#OH=[$]O}', polymer_reactivities={'$': 1.0},
                                                     seed=rng.randrange(1000)).sample(100)
            elif k < 0.68 and k >= 0.6:
                # another user of the hydrogen machinery: the mass of a plain SMILES molecule, hydrogens of a bare graph
                import pysmiles
                from cgsmiles.pysmiles_utils import compute_mass, rebuild_h_atoms
                compute_mass(pysmiles.read_smiles(['CCO', 'c1ccccc1', 'CC(=O)[O-]'][step % 3]))
                rebuild_h_atoms(pysmiles.read_smiles('CCN', explicit_hydrogen=False))
            elif k < 0.6:
                lib_ = cgsmiles.read_fragments(re.findall(r"\{[^\}]+\}", p['frag_string'])[-1])
                # ... and the caller edits its own copy in place
                for g_ in lib_.values():
                    for _, d_ in g_.nodes(data=True):
                        for v_ in d_.values():
                            if isinstance(v_, (list, dict)):
                                v_.clear()
                        d_['element'] = d_['atomname'] = 'Xx'
                    g_.remove_edges_from(list(g_.edges))
                lib_.clear()
        except Exception:
            pass
    for rec in contracts.take('C12'):
        viol.append(V(rec['clause'], rec['msg']))
    observed = contracts.STATS['resolve_calls'] - before
    contracts.clear()
    cls = [(i_['presentations'][0]['base_string'] + i_['presentations'][0]['frag_string'], p['pres']) for i_ in case['inputs'] for p in i_['presentations']]
    return {'violations': viol, 'evaluations': ncalls + nref, 'cls': cls, 'nontrivial': True,
            'counters': {'resolve_calls_observed': observed, 'reference_digests': nref, 'history_steps': ncalls,
                         'exceptions_agreeing_with_reference': sum(1 for d in first if d.startswith('EXC'))},
            'sample': {'history_length': len(case['order']), 'first_inputs': [p['base_string'] + '.' + p['frag_string'] for p in case['inputs'][0]['presentations'][:2]],
                       'hash_seeds': case['seeds']}}
