"""C05 - the multiplication operator is shorthand for writing the unit out (metamorphic + reference)."""
import random

import networkx as nx

from ..gen import grammar as G
from ..gen import annot as A
from .. import oracles, util
from ..oracles import V

PROPERTY = 'C05'
LEVEL = 'exploration'
RULE = ('seeded random grammar ASTs with |n on nodes (first/middle/last, inside branches) and on branches (flat, with '
        'sibling branches, nested positions), combined with bond symbols in every position, ring bonds outside the unit, '
        'annotations, n in 2..5 and stress n in {50,200}. Shorthand and textually expanded longhand are both read by the '
        'real reader and compared (isomorphism on all node attributes + order; exact keys/edges when only nodes are '
        'multiplied); both are also compared with the independent reference. distinct = (feature set, #nodes) classes; '
        'non-trivial = the AST contains a multiplier > 1.')
ASSUMPTIONS = ['unit of a multiplied branch = its anchoring node + that branch (sibling branches are not part of the unit); '
               'symbol between ) and |n = order between consecutive copies; symbol after |n = order to what follows',
               'ring markers on the anchor of a multiplied branch are not generated (textual expansion is ill-defined)']
MECHANISMS = [('cgsmiles.read_cgsmiles', 'read_cgsmiles'), ('cgsmiles.read_cgsmiles', '_expand_branch')]
FINDING_FEATURES = {
    'reader.branch_ends_in_nested_branch': 'double_close',
    'reader.mult_unit_nested_branch': 'nested_branch_in_mult_unit',
    'reader.mult_unit_ring_bond': 'ring_in_mult_unit',
    'reader.mult_unit_node_mult_after_bond': 'node_mult_after_bond_in_mult_unit',
    'reader.bond_symbol_after_node_mult': 'bond_after_node_mult',
    'reader.mult_by_one': 'mult_one',
    'reader.mult_branch_after_sibling': 'mult_branch_after_sibling',
    'reader.nested_mult_stale_recipe': 'nested_mult_after_nested_branch',
}
SIZES = {'quick': dict(rand=9000, max_nodes=14), 'thorough': dict(rand=250000, max_nodes=30)}


def cases(seed, tier, shard, nshards):
    cfg = SIZES[tier]
    rng = random.Random(f'{seed}:C05:{tier}:{shard}')
    count = cfg['rand'] // nshards
    made = 0
    while made < count:
        mode = rng.choice(['node', 'node', 'branch', 'branch', 'mixed', 'mixed', 'unit_ring', 'one'])
        n = rng.choice([1, 2, 3, 4, 6, 9, cfg['max_nodes']])
        ast = G.random_ast(rng, n, max_depth=rng.randint(1, 3), p_branch=rng.choice([0.2, 0.5]),
                           p_bond=rng.choice([0.0, 0.3, 0.7]),
                           n_rings=rng.choice([0, 0, 1, 2]) if mode != 'unit_ring' else 0,
                           p_mult_node=0.3 if mode in ('node', 'mixed') else 0.0,
                           p_mult_branch=0.5 if mode in ('branch', 'mixed', 'unit_ring') else 0.0,
                           p_annot=rng.choice([0, 0.3]), annot_fn=lambda r: A.random_annotation(r, 'base'),
                           p_trailing_branch=rng.choice([0, 0, 0.1]), max_mult=rng.choice([2, 3, 5, 12]))
        if mode == 'unit_ring':
            G.add_rings(rng, ast, 1, in_unit=True)
        if mode == 'one':
            flat = G._flat(ast)
            e = rng.choice(flat)[0]
            if e['branches'] and rng.random() < 0.6:
                rng.choice(e['branches'])['force_mult'] = True
            elif not e['rings']:
                e['force_mult'] = True
        feats = G.features(ast)
        if 'ring_on_mult_anchor' in feats:
            continue
        if not (G.has_multiplier(ast) or 'mult_one' in feats):
            if rng.random() < 0.9:
                continue
        try:
            G.denote(ast)
        except G.RefSyntaxError:
            continue
        made += 1
        yield {'kind': mode, 'ast': ast, 'features': sorted(feats)}
    # units with ONE nested branch, repeated twice on an anchor that is not the first node: the sub-class of 'nested branch
    # inside a multiplied unit' the reader expands correctly (everything else of that class is the open finding's stream)
    for _ in range(max(2, count // 25)):
        names = G.NAMES
        mk = lambda bond=None: G.el(rng.choice(names), annot=(A.random_annotation(rng, 'base')[0] if rng.random() < 0.3 else None),
                                    bond=(rng.choice([0, 2, 3, 4]) if bond is None and rng.random() < 0.3 else bond))
        unit = [mk() for _ in range(rng.randint(2, 4))]
        unit[0]['bond'] = None
        host = rng.randrange(len(unit) - 1)
        inner = [mk() for _ in range(rng.randint(1, 3))]
        inner[0]['bond'] = None
        unit[host]['branches'].append(G.br(inner, order=rng.choice([None, None, 2, 0, 3])))
        anchor = mk()
        anchor['branches'].append(G.br(unit, order=rng.choice([None, None, 2, 3]), mult=2, between=rng.choice([None, None, 0, 2, 3, 4])))
        ast = [mk() for _ in range(rng.randint(1, 3))] + [anchor] + [mk() for _ in range(rng.randint(0, 2))]
        ast[0]['bond'] = None
        feats = G.features(ast)
        try:
            G.denote(ast)
        except G.RefSyntaxError:
            continue
        yield {'kind': 'simple_nested_unit', 'ast': ast, 'features': sorted(feats)}
    if shard < 4:
        for big in (50, 200):
            e = G.el('A', mult=big) if shard % 2 == 0 else G.el('A', branches=[G.br([G.el('B'), G.el('C', bond=2)], mult=big, between=shard)])
            ast = [G.el('X'), e, G.el('Y')]
            yield {'kind': 'stress', 'ast': ast, 'features': sorted(G.features(ast)) + ['stress']}
    # multipliers beyond 255 (degree of polymerisation of a real chain) followed by a bond symbol, as node and as branch
    big = [256, 257, 258, 300, 400, 259][(shard + seed) % 6]
    for form in ('node', 'branch'):
        if form == 'node':
            ast = [G.el('X'), G.el('PEO', mult=big, annot=rng.choice([None, 'q=1'])), G.el('OH', bond=rng.choice([0, 2, 3, 4]))]
        else:
            ast = [G.el('X'), G.el('A', branches=[G.br([G.el('B'), G.el('C', bond=2)], mult=big, between=rng.choice([0, 2, 3]))]), G.el('Y', bond=rng.choice([2, 3]))]
        yield {'kind': 'stress', 'ast': ast, 'features': sorted(G.features(ast)) + ['stress', 'multiplier_over_255_then_bond_symbol']}


def _graph_attr_keys(g):
    return sorted({k for n in g for k in g.nodes[n]})


def run(case):
    import cgsmiles
    ast = case['ast']
    feats = set(case['features'])
    viol = []
    short = G.to_string(ast)
    long_ast = G.expand(ast)
    long = G.to_string(long_ast)
    nodes, edges = G.build(long_ast)
    exact = 'branch_mult' not in feats
    g1 = g2 = None
    try:
        g1 = cgsmiles.read_cgsmiles(short)
    except Exception as err:
        viol.append(V('mult.shorthand_exception', f'{short!r} raised {type(err).__name__}: {err}'))
    try:
        g2 = cgsmiles.read_cgsmiles(long)
    except Exception as err:
        viol.append(V('mult.longhand_exception', f'longhand {long!r} raised {type(err).__name__}: {err}'))
    if g1 is not None and g2 is not None:
        if exact:
            same = (list(g1.nodes(data=True)) == list(g2.nodes(data=True)) and util.edge_table(g1) == util.edge_table(g2))
            if not same:
                viol.append(V('mult.numbering', f'{short!r} and its longhand {long!r} differ in numbering/attributes/edges: '
                              f'{sorted(util.edge_table(g1).items())} vs {sorted(util.edge_table(g2).items())}'))
        else:
            keys = sorted(set(_graph_attr_keys(g1)) | set(_graph_attr_keys(g2)))
            if not util.iso(g1, g2, node_keys=keys, edge_keys=('order',)):
                viol.append(V('mult.not_isomorphic', f'{short!r} is not isomorphic to its longhand {long!r}: '
                              f'{[g1.nodes[n].get("fragname") for n in g1]} {sorted(util.edge_table(g1).items())} vs '
                              f'{[g2.nodes[n].get("fragname") for n in g2]} {sorted(util.edge_table(g2).items())}'))
    if g1 is not None:
        for v in oracles.compare_read_graph(g1, nodes, edges, exact=exact, what='mult.vs_reference'):
            v['clause'] = 'mult.vs_reference'
            v['msg'] = f'{short!r}: ' + v['msg']
            viol.append(v)
    fs = tuple(f for f in case['features'] if not f.startswith('depth'))
    return {'violations': viol, 'nontrivial': G.has_multiplier(ast), 'cls': (fs, len(nodes)), 'sample': [short, long]}
