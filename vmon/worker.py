"""Child process: runs one shard of one property's workload under the monitors."""
import collections
import contextlib
import hashlib
import importlib
import io
import json
import os
import signal
import sys
import time
import traceback

from . import env


class CaseTimeout(BaseException):
    """hang watchdog; not an Exception, so that no 'except Exception' inside a monitor or the code under test swallows it"""


def _alarm(signum, frame):
    raise CaseTimeout()


def load_monitor(prop):
    return importlib.import_module('vmon.monitors.' + prop.lower())


def open_finding_keys(prop):
    path = os.path.join(env.VERIF, 'known_findings.json')
    with open(path) as fh:
        data = json.load(fh)
    return {e['key']: e for e in data['findings'] if e['property'] == prop and e['status'] == 'open'}


def stream_of(mon, case, open_keys):
    """A case that exercises the mechanism of an open finding goes to that finding's
    confirmation stream; everything else is the main stream."""
    tags = getattr(mon, 'FINDING_FEATURES', {})
    feats = set(case.get('features', ()))
    hit = sorted(k for k, tag in tags.items() if k in open_keys and (feats & set([tag] if isinstance(tag, str) else tag)))
    return '+'.join(hit) if hit else 'main'


def run_one(mon, case, timeout):
    """run one case under the monitor with a hang watchdog; returns result dict"""
    old = signal.signal(signal.SIGALRM, _alarm)
    signal.alarm(timeout)
    try:
        sink = io.StringIO()
        with contextlib.redirect_stdout(sink):
            res = mon.run(case)
    except CaseTimeout:
        res = {'timeout': True, 'violations': []}
    except Exception:
        # an error of the monitor itself (the code under test is called inside try/except by every monitor): this case is
        # lost and reported, the shard goes on
        res = {'harness_error': traceback.format_exc()[-1500:], 'violations': []}
    finally:
        signal.alarm(0)
        signal.signal(signal.SIGALRM, old)
    return res


def main(argv):
    prop, tier, seed, shard, nshards, out = argv[0], argv[1], int(argv[2]), int(argv[3]), int(argv[4]), argv[5]
    t0 = time.time()
    env.load()
    mon = load_monitor(prop)
    from . import linecov, hooks
    if hasattr(mon, 'setup'):
        mon.setup()
    cov = linecov.start(getattr(mon, 'MECHANISMS', []))
    open_keys = open_finding_keys(prop)
    case_timeout = int(os.environ.get('VMON_CASE_TIMEOUT', getattr(mon, 'CASE_TIMEOUT', 600)))

    acc = dict(evaluations=0, nontrivial=0, classes=set(), features=collections.Counter(),
               streams=collections.Counter(), samples=[], violations=[], timeouts=0,
               rejected=collections.Counter(), counters=collections.Counter(), errors=[], generator_errors=[])
    nviol_by_class = collections.Counter()
    # a crash inside the workload GENERATOR (harness code, not the code under test) ends that generator; what was executed
    # so far stays valid, and generation restarts under a derived seed (at most 5 times; recorded in the evidence)
    restarts, index = 0, -1
    try:
        it = iter(mon.cases(seed, tier, shard, nshards))
        while True:
            try:
                case = next(it)
            except StopIteration:
                break
            except Exception:
                restarts += 1
                acc['generator_errors'].append(traceback.format_exc()[-1500:])
                if restarts > 5:
                    acc['errors'].append('workload generator failed more than 5 times: ' + acc['generator_errors'][-1])
                    break
                it = iter(mon.cases(seed * 1000003 + restarts, tier, shard, nshards))
                continue
            index += 1
            stream = stream_of(mon, case, open_keys)
            res = run_one(mon, case, case_timeout)
            acc['evaluations'] += res.get('evaluations', 1)
            acc['streams'][stream] += 1
            if res.get('timeout'):
                acc['timeouts'] += 1
                continue
            if res.get('harness_error'):
                acc['errors'].append(res['harness_error'])
                continue
            for f in case.get('features', ()):
                acc['features'][f] += 1
            for f in res.get('features', ()):
                acc['features'][f] += 1
            for k, v in res.get('counters', {}).items():
                acc['counters'][k] += v
            for k, v in res.get('rejected', {}).items():
                acc['rejected'][k] += v
            if res.get('nontrivial', True):
                acc['nontrivial'] += 1
                cls = res.get('cls')
                if cls is None:
                    cls = json.dumps(case, sort_keys=True, default=str)
                if not isinstance(cls, (list, tuple, set)):
                    cls = [cls]
                for c in cls:
                    acc['classes'].add(hashlib.sha1(str(c).encode()).hexdigest()[:12])
            if len(acc['samples']) < 3 and stream == 'main':
                acc['samples'].append(res.get('sample', case))
            for v in res.get('violations', []):
                key = (stream, v['clause'])
                nviol_by_class[key] += 1
                if nviol_by_class[key] <= 3:
                    acc['violations'].append(dict(stream=stream, clause=v['clause'], msg=str(v.get('msg', ''))[:2000],
                                                  case=case, shard=shard, index=index))
    except Exception:
        acc['errors'].append(traceback.format_exc())
    acc['counters']['harness.generator_restarts'] += restarts
    for k, v in hooks.COUNTERS.items():
        acc['counters']['hook.' + k] += v
    acc['linecov'] = linecov.stop(cov)
    acc['violation_counts'] = {f'{s}|{c}': n for (s, c), n in nviol_by_class.items()}
    acc['classes'] = sorted(acc['classes'])
    acc['wall_s'] = time.time() - t0
    for k in ('features', 'streams', 'rejected', 'counters'):
        acc[k] = dict(acc[k])
    with open(out, 'w') as fh:
        json.dump(acc, fh, default=str)


if __name__ == '__main__':
    main(sys.argv[1:])
