import sys
import networkx as nx
from cgsmiles import MoleculeResolver
from cgsmiles.read_fragments import strip_bonding_descriptors
for s in sys.argv[1:]:
    print(s)
    frag=s.split('.{',1)[1][:-1]
    for f in frag.split(','):
        print('   strip', f, '->', strip_bonding_descriptors(f.split('=',1)[1])[:2])
    try:
        cg,aa=MoleculeResolver.from_string(s).resolve()
        print('   atoms', [(n,d['element'],d.get('charge',0)) for n,d in aa.nodes(data=True) if d['element']!='H'])
        print('   bonds', [(a,b,d['order']) for a,b,d in aa.edges(data=True) if aa.nodes[a]['element']!='H' and aa.nodes[b]['element']!='H'])
        print('   H', {n: sum(1 for x in aa[n] if aa.nodes[x]['element']=='H') for n in aa if aa.nodes[n]['element']!='H'})
    except Exception as e:
        print('   EXC', type(e).__name__, e)
