import numpy as np, networkx as nx
from cgsmiles import MoleculeResolver
from cgsmiles.rdkit import rdkit_to_networkx, networkx_to_rdkit, embed_3d_via_rdkit
from cgsmiles.coordinates import embedd_cg_molecule_via_rdkit, forward_map_molecule
from rdkit import Chem
from rdkit.Chem import AllChem
s="{[#A][#B]}.{#A=CC[$],#B=[$]O}"
cg,aa=MoleculeResolver.from_string(s).resolve()
print(list(aa.nodes))
embed_3d_via_rdkit(aa)
for a,b in aa.edges:
    print(a,b,aa.nodes[a]['element'],aa.nodes[b]['element'], round(float(np.linalg.norm(aa.nodes[a]['position']-aa.nodes[b]['position'])),2))
# rdkit with conformer -> networkx
m=Chem.AddHs(Chem.MolFromSmiles('CCO')); AllChem.EmbedMolecule(m, randomSeed=1)
try:
    g=rdkit_to_networkx(m); print('conf ok', g.nodes[0].get('position'))
except Exception as e: print('EXC', type(e).__name__, e)
# forward map weights
s="{[#A][#B]}.{#A=[C;0.5]C[$],#B=[$]O}"
cg,aa=MoleculeResolver.from_string(s).resolve()
for i,n in enumerate(aa.nodes): aa.nodes[n]['position']=np.array([float(n),0,0])
forward_map_molecule(cg,aa); p0={k:cg.nodes[k]['position'].copy() for k in cg}
for n in aa.nodes: aa.nodes[n]['position']=aa.nodes[n]['position']+np.array([10.,0,0])
forward_map_molecule(cg,aa); print({k:(p0[k], cg.nodes[k]['position']) for k in cg})
print({k: nx.get_node_attributes(cg.nodes[k]['graph'],'weight') for k in cg})
