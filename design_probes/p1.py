import networkx as nx
from cgsmiles import read_cgsmiles, MoleculeResolver
from cgsmiles.write_cgsmiles import write_cgsmiles_graph, write_cgsmiles_fragments, write_cgsmiles
from cgsmiles.read_fragments import read_fragments, strip_bonding_descriptors
# C07: ring-closing edge w/ order
for s in ["{[#A]=1[#B][#C]1}", "{[#A].1[#B][#C]1}", "{[#A]([#B])=[#C]}", "{[#A]=([#B])[#C]}", "{[#A].[#B]}", "{[#A]$[#B]}"]:
    g = read_cgsmiles(s)
    out = write_cgsmiles_graph(g)
    g2 = read_cgsmiles(out)
    em = lambda a,b: a['order']==b['order']
    nm = lambda a,b: a['fragname']==b['fragname']
    print(s, out, nx.is_isomorphic(g,g2,node_match=nm,edge_match=em), sorted(g.edges(data='order')), sorted(g2.edges(data='order')))
# C08: two descriptors w/ different orders on one atom
for s in ["{#A=CC[$a]=[$b]CC}", "{#A=CC=[$a][$b]CC}", "{#A=[$]=CC[>]#[<]}", "{#A=[$].CC}"]:
    f = read_fragments(s)
    out = write_cgsmiles_fragments(f)
    f2 = read_fragments(out)
    print(s, out, dict(f['A'].nodes(data='bonding')), dict(f2['A'].nodes(data='bonding')))
