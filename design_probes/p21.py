import networkx as nx, traceback
import cgsmiles
from cgsmiles import MoleculeResolver
def nmatch(a,b): return a.get('atomname')==b.get('atomname')
tests=[
("{[#A0][#B0]}.{#A0=[#A1a][#A1b][>],#B0=[<][#B1a][#B1b]}.{#A1a=[<][#A2a]([#A2b][#A2c])[#A2d][>],#A1b=[<][#A2c][#A2d][>],#B1a=[<][#B2a][#B2b][>],#B1b=[<][#B2c][>]([#B2d]1[#B2e][#B2f]1)}",
 ["{[#A1a][#A1b][#B1a][#B1b]}","{[#A2a]([#A2b][#A2c])[#A2d][#A2c][#A2d][#B2a][#B2b][#B2c]([#B2d]1[#B2e][#B2f]1)}"]),
("{[#A0]1[#A0][#A0]1}.{#A0=[>][#A1a][#A1b][<]}.{#A1a=[>][#A2a][#A2b][#A2c][<],#A1b=[<][#A2e][>]([#C][#D])}",
 ["{[#A1a]1[#A1b][#A1a][#A1b][#A1a][#A1b]1}", "{[#A2a]1[#A2b][#A2c][#A2e]([#C][#D])[#A2a][#A2b][#A2c][#A2e]([#C][#D])[#A2a][#A2b][#A2c][#A2e]1([#C][#D])}"]),
]
for s,refs in tests:
    r=MoleculeResolver.from_string(s,last_all_atom=False)
    for (lo,hi),ref in zip(r.resolve_iter(),refs):
        rg=cgsmiles.read_cgsmiles(ref)
        print(nx.is_isomorphic(rg,hi,node_match=lambda a,b:a['fragname']==b['atomname']), sorted(d['atomname'] for n,d in hi.nodes(data=True))==sorted(d['fragname'] for n,d in rg.nodes(data=True)), len(hi), len(rg))
        print('   hi', [(n,d['atomname'],d['fragid']) for n,d in hi.nodes(data=True)], sorted(hi.edges))
# doc mPEG-like: three-level vs two-level all atom
s3="{[#B1][#B2][#B1]}.{#B1=[#PEO]|4[>],#B2=[<][#PE]|2[<]}.{#PEO=[>]COC[<],#PE=[>]CC[<]}"
try:
    r=MoleculeResolver.from_string(s3); 
    for lo,hi in r.resolve_iter(): print(len(lo),len(hi))
except Exception as e: traceback.print_exc(limit=3)
