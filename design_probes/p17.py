import networkx as nx, traceback
from cgsmiles import MoleculeResolver
def heavy(aa):
    return sorted((d['element'], sum(1 for x in aa[n] if aa.nodes[x]['element']=='H'), tuple(d['fragid'])) for n,d in aa.nodes(data=True) if d['element']!='H')
def show(s):
    print(s)
    try:
        cg,aa=MoleculeResolver.from_string(s).resolve()
        print('   ', len(aa), heavy(aa))
        print('   bonds', sorted((aa.nodes[a]['element'],aa.nodes[b]['element'],d['order']) for a,b,d in aa.edges(data=True) if aa.nodes[a]['element']!='H' and aa.nodes[b]['element']!='H'))
    except Exception as e:
        traceback.print_exc(limit=2)
# one atom shared by three fragments: central C shared by A,B,C  (isobutane-like: C(N)(O)(F) central C)
show("{[#A]([#B])[#C]}.{#A=NC[!][!],#B=[!]CO,#C=[!]CF}")
show("{[#B][#A][#C]}.{#A=NC[!][!],#B=[!]CO,#C=[!]CF}")
show("{[#B][#C][#A]1}.{#A=NC[!][!],#B=[!]CO,#C=[!]CF}") if False else None
# triangle base graph: all three share same atom pairwise
show("{[#A]1[#B][#C]1}.{#A=NC[!][!],#B=[!][!]CO,#C=[!][!]CF}")
# chain of shared atoms: A shares x with B, B shares y with C
show("{[#A][#B][#C]}.{#A=NC[!],#B=[!]CC[!],#C=[!]CF}")
show("{[#C][#B][#A]}.{#A=NC[!],#B=[!]CC[!],#C=[!]CF}")
# kept node removed later: order (X,Y) then (Z,X)
show("{[#X][#Y].[#Z]2.[#W][#X]2}.{#X=C[!]}") if False else None
show("{[#A][#B]1[#C][#D]1}.{#A=NC[!],#B=[!a]C[!b][!],#C=[!a]CO,#D=[!b]CF}")
