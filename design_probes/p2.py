import networkx as nx
from cgsmiles import read_cgsmiles
from cgsmiles.write_cgsmiles import write_cgsmiles_graph
for s in ["{[#A]([#B])=[#C]}", "{[#A]=([#B])[#C]}", "{[#A].[#B]}", "{[#A]$[#B]}", "{[#A]([#B])([#C])[#D]}","{[#A]([#B]=[#E])([#C])[#D]}"]:
    g = read_cgsmiles(s)
    print(s, sorted(g.edges(data='order')))
    out = write_cgsmiles_graph(g)
    print("   ->", out)
    try:
        g2 = read_cgsmiles(out)
        em = lambda a,b: a['order']==b['order']
        nm = lambda a,b: a['fragname']==b['fragname']
        print("   ", nx.is_isomorphic(g,g2,node_match=nm,edge_match=em), sorted(g2.edges(data='order')))
    except Exception as e:
        print("   EXC", type(e).__name__, e)
