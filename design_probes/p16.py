import networkx as nx
from cgsmiles import MoleculeResolver
for s in ["{[#A][#B]}.{#A=CC[!],#B=[!]CC}", "{[#A][#B]}.{#A=OC[!],#B=[!]CC}"]:
    cg,aa=MoleculeResolver.from_string(s).resolve()
    for k in cg: print(k, [(n, cg.nodes[k]['graph'].nodes[n]['atomname'], aa.nodes[n]['atomname']) for n in cg.nodes[k]['graph'].nodes])
    print([(n,d['fragid']) for n,d in aa.nodes(data=True)])
