import random, sys, networkx as nx
from refparse import *
from cgsmiles import read_cgsmiles
NAMES=['A','B','C','PEO','X1']
class Cfg: pass
def gen_chain(rng, depth, cfg, last_in_parent=False):
    n=rng.randint(1,3)
    chain=[]
    for i in range(n):
        el=dict(name=rng.choice(NAMES), rings=[], branches=[], mult=1, bond=None)
        if i>0 and rng.random()<0.4 and not (cfg.no_bond_after_mult and chain[-1]['mult']>1) :
            el['bond']=rng.choice([0,1,2,3,4])
        if cfg.node_mult and rng.random()<0.2: el['mult']=rng.randint(2,3)
        is_last = (i==n-1)
        if depth<cfg.maxdepth and rng.random()<0.4 and not (cfg.no_dbl_close and is_last and depth>0):
            nb=rng.randint(1,cfg.maxbranch)
            for b in range(nb):
                br=dict(order=rng.choice([None,None,0,2,3]) if cfg.branch_bond else None, chain=gen_chain(rng, depth+1, cfg), mult=1, between=None)
                el['branches'].append(br)
            if cfg.branch_mult and el['mult']==1 and rng.random()<0.3:
                br=el['branches'][-1]; br['mult']=rng.randint(2,3); br['between']=rng.choice([None,None,2,0,4]) if cfg.between else None
        if el['mult']>1 and el['branches']: el['mult']=1
        chain.append(el)
    return chain
def run(seed, cfg, N):
    rng=random.Random(seed); bad={}; ok=0
    for k in range(N):
        ast=gen_chain(rng,0,cfg)
        s='{'+unparse(ast)+'}'
        try:
            nodes,edges=build(expand(ref_read(s)))
        except SyntaxError: continue
        try:
            g=read_cgsmiles(s)
            got_nodes=[g.nodes[n]['fragname'] for n in sorted(g.nodes)]
            got_edges={(min(a,b),max(a,b)):o for a,b,o in g.edges(data='order')}
            good = got_nodes==nodes and got_edges==edges and list(g.nodes)==list(range(len(nodes)))
            if good: ok+=1
            else:
                ref=nx.Graph(); 
                for i,nm in enumerate(nodes): ref.add_node(i,fragname=nm)
                for (a,b),o in edges.items(): ref.add_edge(a,b,order=o)
                iso=nx.is_isomorphic(ref,g,node_match=lambda x,y:x['fragname']==y['fragname'],edge_match=lambda x,y:x['order']==y['order'])
                bad.setdefault(('iso' if iso else 'noniso'),[]).append(s)
        except Exception as e:
            bad.setdefault(type(e).__name__,[]).append(s)
    return ok,bad
def show(title, **kw):
    cfg=Cfg(); cfg.node_mult=False; cfg.branch_mult=False; cfg.between=False; cfg.branch_bond=True; cfg.no_dbl_close=True; cfg.no_bond_after_mult=True; cfg.maxdepth=2; cfg.maxbranch=2
    for k,v in kw.items(): setattr(cfg,k,v)
    ok,bad=run(1,cfg,4000)
    print(title, 'ok',ok, {k:len(v) for k,v in bad.items()})
    for k,v in bad.items():
        for s in sorted(set(v),key=len)[:5]: print('   ',k,s)
show('plain no-))')
show('plain with ))', no_dbl_close=False)
show('node mult', node_mult=True)
show('branch mult no between', branch_mult=True)
show('branch mult between', branch_mult=True, between=True)
show('branch+node mult', branch_mult=True, node_mult=True, between=True)
show('branch mult depth1 single-branch', branch_mult=True, between=True, maxdepth=1, maxbranch=1)
