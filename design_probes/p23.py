from cgsmiles import read_cgsmiles, MoleculeResolver
from cgsmiles.read_fragments import read_fragments
def n0(s): 
    try: return dict(read_cgsmiles(s).nodes[0])
    except BaseException as e: return (type(e).__name__, str(e)[:60])
for s in ["{[#A]}", "{[#A;1]}", "{[#A;q=1]}", "{[#A;+1]}", "{[#A;1;0.5]}", "{[#A;q=1;w=0.5]}", "{[#A;w=0.5;q=1]}", "{[#A;1;w=0.5]}", "{[#A;w=0.5]}", "{[#A;1e-1]}", "{[#A;q=-0.25;foo=bar]}", "{[#A;foo=bar;q=-0.25]}", "{[#A;foo=bar]}", "{[#A;foo=bar;1]}", "{[#A;q=1;mass=72]}","{[#A;q=1;fragname=Z]}", "{[#A;kwargs=3]}", "{[#A;w=2;weight=3]}", "{[#A;charge=3]}"]:
    print(s, n0(s))
for s,aa in [("{#A=[C;0.5]C}",True), ("{#A=[C;w=0.5]C}",True), ("{#A=[C;0.5;S]C}",True), ("{#A=[C;x=S;w=0.5]C}",True), ("{#A=[C;x=S]C}",True), ("{#A=[C;foo=1;x=S]C}",True),("{#A=[C;1;S;foo=2]C}",True),
             ("{#A=[#X;0.5][#Y]}",False), ("{#A=[#X;w=0.5][#Y]}",False), ("{#A=[#X;q=1][#Y]}",False), ("{#A=[#X;foo=a][#Y]}",False), ("{#A=[#X;0.5;R][#Y]}",False)]:
    try: print(s, dict(read_fragments(s, all_atom=aa)['A'].nodes[0]))
    except BaseException as e: print(s, type(e).__name__, e)
# propagation to fine graph
cg,aa=MoleculeResolver.from_string("{[#A;q=1;foo=bar]|2[#B;w=3]}.{#A=[$][C;0.5;S;k=v]C[$],#B=[$]O}").resolve()
print([(n,{k:v for k,v in d.items() if k!='graph'}) for n,d in cg.nodes(data=True)])
print([(n,{k:v for k,v in d.items() if k in ('weight','chiral','k','element','fragid')}) for n,d in aa.nodes(data=True)])
