import random, sys, traceback, collections
import networkx as nx
from molgen import *
from cgsmiles import MoleculeResolver
nm = lambda a,b: a['element']==b['element'] and a.get('charge',0)==b.get('charge',0)
em = lambda a,b: a['order']==b['order']
def simplify(m):
    h=nx.Graph()
    for n,d in m.nodes(data=True): h.add_node(n, element=d['element'], charge=d.get('charge',0))
    for a,b,d in m.edges(data=True): h.add_edge(a,b,order=d['order'])
    return h
seed=int(sys.argv[1]) if len(sys.argv)>1 else 1
N=int(sys.argv[2]) if len(sys.argv)>2 else 500
rng=random.Random(seed)
stats=collections.Counter(); examples=collections.defaultdict(list)
for it in range(N):
    g=gen_molecule(rng, max_heavy=10)
    if not nx.is_connected(g): stats['disconnected']+=1; continue
    exp=with_hydrogens(g)
    part=partition(rng,g)
    case=build_case(rng,g,part)
    if case is None: stats['toomanycuts']+=1; continue
    s,pre=full_string(rng,case)
    # uncut
    case1=build_case(rng,g,{n:0 for n in g})
    s1,_=full_string(rng,case1)
    try:
        cg,aa=MoleculeResolver.from_string(s).resolve()
        ok=nx.is_isomorphic(exp,simplify(aa),node_match=nm,edge_match=em)
        stats['cut_ok' if ok else 'cut_bad']+=1
        if not ok: examples['cut_bad'].append(s)
    except Exception as e:
        stats['cut_exc_'+type(e).__name__]+=1; examples['cut_exc_'+type(e).__name__].append((s,str(e)[:80]))
    try:
        cg,aa1=MoleculeResolver.from_string(s1).resolve()
        ok=nx.is_isomorphic(exp,simplify(aa1),node_match=nm,edge_match=em)
        stats['uncut_ok' if ok else 'uncut_bad']+=1
        if not ok: examples['uncut_bad'].append(s1)
    except Exception as e:
        stats['uncut_exc_'+type(e).__name__]+=1; examples['uncut_exc_'+type(e).__name__].append((s1,str(e)[:80]))
print(dict(stats))
for k,v in examples.items():
    for x in sorted(v,key=lambda z:len(z if isinstance(z,str) else z[0]))[:6]: print(k,x)
