import random, sys, collections
import networkx as nx
from molgen import *
from cgsmiles import MoleculeResolver
nm = lambda a,b: a['element']==b['element'] and a.get('charge',0)==b.get('charge',0)
em = lambda a,b: a['order']==b['order']
def simplify(m):
    h=nx.Graph()
    for n,d in m.nodes(data=True): h.add_node(n, element=d['element'], charge=d.get('charge',0))
    for a,b,d in m.edges(data=True): h.add_edge(a,b,order=d['order'])
    return h
def dime_ok(g):
    # reject molecules with non-aromatic cycles whose double bonds perfectly match the cycle
    for cyc in nx.simple_cycles(g, length_bound=10):
        if all(not g.nodes[n]['aromatic'] for n in cyc) or True:
            es=list(zip(cyc,cyc[1:]+cyc[:1]))
            if all(g.nodes[n]['aromatic'] for n in cyc): continue
            dbl=[e for e in es if g.edges[e]['order']==2]
            if len(cyc)%2==0 and len(dbl)==len(cyc)//2:
                cov=set(x for e in dbl for x in e)
                if len(cov)==len(cyc): return False
    return True
seed=int(sys.argv[1]); N=int(sys.argv[2])
rng=random.Random(seed); stats=collections.Counter(); ex=collections.defaultdict(list)
for it in range(N):
    g=gen_molecule(rng, max_heavy=10)
    if not dime_ok(g): stats['dime_skip']+=1; continue
    exp=with_hydrogens(g)
    part=partition(rng,g)
    case=build_case_shared(rng,g,part,p_share=float(sys.argv[3]) if len(sys.argv)>3 else 0.5)
    if case and len(sys.argv)>4 and any(g.nodes[b]['aromatic'] for b,c in case['shared']): stats['skip_arom_share']+=1; continue
    if case is None: stats['skip']+=1; continue
    s,pre=full_string(rng,case)
    try:
        cg,aa=MoleculeResolver.from_string(s).resolve()
        ok=nx.is_isomorphic(exp,simplify(aa),node_match=nm,edge_match=em)
        k='ok' if ok else 'bad'
        if case['shared']: k+='_shared'
        stats[k]+=1
        if not ok: ex[k].append(s)
    except Exception as e:
        stats['exc_'+type(e).__name__]+=1; ex['exc_'+type(e).__name__].append((s,str(e)[:100]))
print(dict(stats))
for k,v in ex.items():
    for x in sorted(v,key=lambda z:len(z if isinstance(z,str) else z[0]))[:8]: print(k,x)
