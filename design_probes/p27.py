import random, sys, collections, traceback, warnings
import networkx as nx, numpy as np
warnings.simplefilter('ignore')
import cgsmiles.sample as S
from cgsmiles.sample import MoleculeSampler
from molgen import VAL
import pysmiles
events=[]
orig_sel=S._select_bonding_operator
def sel(bonds, probabilities=None):
    r=orig_sel(bonds, probabilities)
    events.append(('select', list(bonds), dict(probabilities) if probabilities else None, r))
    return r
S._select_bonding_operator=sel
AA_UNITS=["C","CC","CO","C(C)C","c1ccccc1","N","S","C=C","CC(=O)O"]
CG_UNITS=["[#A]","[#A][#B]","[#A]([#B])[#C]","[#A]1[#B][#C]1"]
def gen_frag(rng, all_atom):
    # place 1-4 descriptors on a unit; atomistic: simple approach: descriptors before first atom and after atoms
    if all_atom:
        unit=rng.choice(["C","CC","COC","CC(C)","N","CS","C=C","CCO"])
    else: unit=rng.choice(["[#A]","[#A][#B]","[#A][#B][#C]"])
    nd=rng.randint(1,4)
    descs=[]
    for i in range(nd):
        kind=rng.choice(['$','$','>','<']); lab=rng.choice(['','','A','B']); o=rng.choice([1,1,1,2])
        descs.append((kind,lab,o))
    # split unit into atom tokens
    import re
    toks=re.findall(r'\[#\w+\]|Cl|Br|[A-Za-z]|[()=#]', unit)
    atom_idx=[i for i,t in enumerate(toks) if t.startswith('[#') or t.isalpha()]
    out=list(toks)
    place=collections.defaultdict(list)
    for d in descs: place[rng.choice(atom_idx)].append(d)
    s=''
    for i,t in enumerate(toks):
        s+=t
        for kind,lab,o in place.get(i,[]): s+=('=' if o==2 else '')+'[%s%s]'%(kind,lab)
    return s, descs
def run(seed):
    rng=random.Random(seed)
    all_atom=rng.random()<0.5
    nf=rng.randint(1,4)
    frs={}; alld=set()
    for i in range(nf):
        s,ds=gen_frag(rng,all_atom); frs['F%d'%i]=s
        for k,l,o in ds: alld.add((k+l, o))
    fragstr='{'+','.join('#%s=%s'%kv for kv in frs.items())+'}'
    keys=sorted({k for k,o in alld})
    pr={k: rng.choice([0,0.2,0.5,1.0]) for k in keys}
    fr={}
    if rng.random()<0.5:
        for k in keys:
            if rng.random()<0.6: fr[k]={k2: rng.choice([0,0.3,1.0]) for k2 in keys}
    term=[k for k in keys if rng.random()<0.15]
    kw=dict(polymer_reactivities=pr, fragment_reactivities=fr, terminal_bonds=term, all_atom=all_atom, seed=seed)
    if not all_atom or rng.random()<0.3: kw['fragment_masses']={n: rng.choice([10,42,100.5]) for n in frs}
    target=rng.choice([50,200,500])
    return fragstr, kw, target
stats=collections.Counter(); ex=collections.defaultdict(list)
for seed in range(int(sys.argv[1]), int(sys.argv[2])):
    fragstr,kw,target=run(seed)
    events.clear()
    try:
        s=MoleculeSampler.from_fragment_string(fragstr, **kw)
        m=s.sample(target)
    except Exception as e:
        stats['dead_'+type(e).__name__]+=1; continue
    errs=[]
    for ev in events:
        _,bonds,probs,chosen=ev
        if chosen not in bonds: errs.append(('chosen not offered',ev))
        if probs is not None and not probs.get(chosen,0)>0: errs.append(('zero prob chosen',ev))
    if not nx.is_connected(m): errs.append(('disconnected',))
    # tree of fragments
    fid={n:d['fragid'][0] for n,d in m.nodes(data=True)}
    inter=[(a,b,d) for a,b,d in m.edges(data=True) if fid[a]!=fid[b]]
    nfr=len(set(fid.values()))
    if len(inter)!=nfr-1: errs.append(('not tree',len(inter),nfr))
    for a,b,d in inter:
        if 'bonding' not in d: errs.append(('no bonding',)); continue
        x,y=d['bonding']
        if x[-1]!=y[-1]: errs.append(('order mismatch',x,y))
        if x[0]=='$' and y[0]!='$' or x[0] in '<>' and ({x[0],y[0]}!={'<','>'} or x[1:]!=y[1:]): errs.append(('incompatible',x,y))
        if d['order']!=int(x[-1]): errs.append(('edge order',d['order'],x))
    if sorted(m.nodes)!=list(range(len(m))): errs.append(('keys',))
    # mass stop rule
    names={}
    for n,d in m.nodes(data=True): names[d['fragid'][0]]=d['fragname']
    added=[names[i] for i in sorted(names) if i>0]
    tot=sum(s.fragment_masses[x] for x in added)
    if not (tot>=target and tot - s.fragment_masses[added[-1]] < target): errs.append(('stop rule',tot,target))
    if errs:
        for e in errs: stats[e[0]]+=1; ex[e[0]].append((fragstr,kw,e))
    else: stats['ok']+=1
print(dict(stats))
for k,v in ex.items():
    for x in v[:2]: print(k,x)
