import random, sys, collections
import networkx as nx
from molgen import *
from cgsmiles import MoleculeResolver
nm = lambda a,b: a['element']==b['element'] and a.get('charge',0)==b.get('charge',0)
em = lambda a,b: a['order']==b['order']
INV = {0: '.', 1: '', 2: '=', 3: '#', 4: '$'}
def simplify(m):
    h=nx.Graph()
    for n,d in m.nodes(data=True): h.add_node(n, element=d['element'], charge=d.get('charge',0))
    for a,b,d in m.edges(data=True): h.add_edge(a,b,order=d['order'])
    return h
def write_cg(rng, graph, nodes, desc, name_of):
    """CGsmiles text for induced subgraph with descriptors desc[node]=[(kind,label,order)]"""
    sub=graph.subgraph(nodes); start=rng.choice(list(nodes))
    seen={start}; kids={}; tree=set()
    def dfs(n):
        kids[n]=[]; nb=list(sub[n]); rng.shuffle(nb)
        for x in nb:
            if x not in seen: seen.add(x); tree.add(frozenset((n,x))); kids[n].append(x); dfs(x)
    dfs(start); pre=[]
    def po(n):
        pre.append(n)
        for x in kids[n]: po(x)
    po(start); idx={n:i for i,n in enumerate(pre)}
    ring_at={n:[] for n in nodes}; m=0
    for a,b in sub.edges:
        if frozenset((a,b)) in tree: continue
        if idx[a]>idx[b]: a,b=b,a
        m+=1; ring_at[a].append((m,INV[sub.edges[a,b]['order']])); ring_at[b].append((m,''))
    def emit(n):
        s='[#%s]'%name_of(n)
        for kind,lab,o in desc.get(n,[]): s+=INV[o]+'[%s%s]'%(kind,lab)
        for mm,sym in ring_at[n]: s+=sym+str(mm)
        ks=kids[n]
        for i,x in enumerate(ks):
            bs=INV[sub.edges[n,x]['order']]
            if i<len(ks)-1: s+=bs+'('+emit(x)+')'
            else: s+=bs+emit(x)
        return s
    return emit(start)
def group_level(rng, base, prefix):
    """partition nodes of `base` (nx graph with 'order' edges) into connected groups; returns (new_base, fragment_strings dict)"""
    part=partition(rng, base) 
    ng=max(part.values())+1
    labels=iter(['%s%d'%(prefix,i) for i in range(1000)])
    desc={}; cnt={}
    for a,b,d in base.edges(data=True):
        if part[a]!=part[b]:
            lab=next(labels); o=d['order']
            desc.setdefault(a,[]).append(('$',lab,o)); desc.setdefault(b,[]).append(('$',lab,o))
            key=frozenset((part[a],part[b])); cnt[key]=cnt.get(key,0)+1
    if any(v>4 for v in cnt.values()): return None
    new=nx.Graph()
    order=list(range(ng)); rng.shuffle(order)
    for i in order: new.add_node(i, fragname='%sG%d'%(prefix,i))
    for key,v in cnt.items():
        a,b=tuple(key); new.add_edge(a,b,order=v)
    frs={}
    for i in range(ng):
        mem=[n for n in base if part[n]==i]
        frs['%sG%d'%(prefix,i)]=write_cg(rng, base, mem, desc, lambda n: base.nodes[n]['fragname'])
    return new, frs
seed=int(sys.argv[1]); N=int(sys.argv[2]); rng=random.Random(seed)
stats=collections.Counter(); ex=collections.defaultdict(list)
for it in range(N):
    g=gen_molecule(rng,max_heavy=12)
    exp=with_hydrogens(g)
    case=build_case(rng,g,partition(rng,g,k=rng.randint(2,min(len(g),6)) if len(g)>=2 else 1))
    if case is None or len(case['frags'])<2: stats['skip']+=1; continue
    levels=[]; base=case['base']; ok=True
    nlev=rng.randint(1,3)
    for L in range(nlev):
        if len(base)<2: break
        r=group_level(rng, base, 'L%d'%L)
        if r is None: ok=False; break
        base,frs=r; levels.append(frs)
    if not ok or not levels: stats['skip']+=1; continue
    bstr,_=write_base(rng, base)
    s=bstr
    for frs in reversed(levels):
        items=list(frs.items()); rng.shuffle(items); s+='.{'+','.join('#%s=%s'%kv for kv in items)+'}'
    items=list(case['frags'].items()); rng.shuffle(items); s+='.{'+','.join('#%s=%s'%kv for kv in items)+'}'
    try:
        r=MoleculeResolver.from_string(s); steps=list(r.resolve_iter())
        aa=steps[-1][1]
        iso=nx.is_isomorphic(exp,simplify(aa),node_match=nm,edge_match=em)
        chain=all(steps[i+1][0] is steps[i][1] for i in range(len(steps)-1))
        k='ok' if iso and chain else ('bad_iso' if not iso else 'bad_chain')
        stats[k+'_lev%d'%len(levels)]+=1
        if k!='ok': ex[k].append(s)
    except Exception as e:
        stats['exc_'+type(e).__name__]+=1; ex['exc_'+type(e).__name__].append((s,str(e)[:80]))
print(dict(stats))
for k,v in ex.items():
    for x in sorted(v,key=lambda z:len(z if isinstance(z,str) else z[0]))[:5]: print(k,x)
