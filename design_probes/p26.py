import itertools, random, networkx as nx, collections
from cgsmiles import read_cgsmiles
from cgsmiles.write_cgsmiles import write_cgsmiles_graph
atlas=[g for g in nx.graph_atlas_g() if 1<=len(g)<=6 and nx.is_connected(g)]
print(len(atlas))
rng=random.Random(0); stats=collections.Counter(); ex=[]
nm=lambda a,b:a['fragname']==b['fragname']; em=lambda a,b:a['order']==b['order']
for g in atlas:
    for rep in range(6):
        h=nx.Graph()
        nodes=list(g.nodes); perm=nodes[:]; rng.shuffle(perm); mp=dict(zip(nodes,perm))
        order_nodes=nodes[:]; rng.shuffle(order_nodes)
        for n in order_nodes: h.add_node(mp[n], fragname=rng.choice(['A','B','C']))
        es=list(g.edges); rng.shuffle(es)
        for a,b in es: h.add_edge(mp[a],mp[b],order=rng.choice([0,1,1,2,3,4]))
        try:
            s=write_cgsmiles_graph(h); h2=read_cgsmiles(s)
            ok=nx.is_isomorphic(h,h2,node_match=nm,edge_match=em)
            stats['ok' if ok else 'bad']+=1
            if not ok: ex.append((s,sorted(h.edges(data='order'))))
        except Exception as e:
            stats['exc_'+type(e).__name__]+=1; ex.append((type(e).__name__,str(e)[:50],sorted(h.edges(data='order'))))
print(dict(stats))
for e in ex[:10]: print(e)
