from cgsmiles import MoleculeResolver, read_cgsmiles
def t(s, aa=True):
    try:
        r=MoleculeResolver.from_string(s, last_all_atom=aa); out=r.resolve_all()
        print('NOERR', s, len(out[1]))
    except BaseException as e:
        print(type(e).__name__, '|', s, '|', str(e)[:70])
frag=".{#A=CC[$],#B=[$]O[$]}"
for b in ["{[#A][#B]1}", "{[#A]1[#B]}", "{[#A]([#B]1)[#B]}", "{[#A][#B]|2%12}", "{[#A]([#B]1)|2}", "{[#A]1[#B]1}", "{[#A]1([#B]1)}", "{[#A]12[#B][#B]12}", "{[#A][#B]1[#B]1}", "{[#A]([#B][#B]1[#A]1)}",
          "{[#A][#C]}", "{[#A]([#B][#C])}", "{[#A][#B]|3[#C]}", "{[#A].[#C]}", "{[#A].[#C][#B]}",
          "{[#A;w=a=b][#B]}", "{[#A][#B;q=1=2]}", "{[#A]([#B;1;2;3;4])}", "{[#A;1;2;3][#B]}", "{[#A;q=x][#B]}", "{[#A][#B;w=1.x]}", "{[#A;abc][#B]}", "{[#A;q=1;q=2][#B]}", "{[#A;1;q=2][#B]}"]:
    t(b+frag)
t("{[#A][#B]}.{#A=CC[$],#B=[$]O[$]C1}")
t("{[#A][#B]}.{#A=[#X][#Y][$],#B=[$][#Z]1[#W]}", aa=False)
t("{[#A][#B]}.{#A=[#X][#Y][$],#B=[$][#Z]1[#W]1}", aa=False)
t("{[#A][#B]}.{#A=[#X;q=a=b][#Y][$],#B=[$][#Z][#W]}", aa=False)
t("{[#A][#B]}.{#A=[C;w=abc]C[$],#B=[$]O}")
t("{[#A][#B]}.{#A=[C;1;S;3;4]C[$],#B=[$]O}")
t("{[#A][#B]}.{#A=[C;w=1=2]C[$],#B=[$]O}")
