"""Independent reference reader for the documented CGsmiles graph grammar (probe)."""
import random, re
SYM = {'.':0,'-':1,'=':2,'#':3,'$':4}

class Tok:
    def __init__(s, text): s.t=text; s.i=0
    def peek(s): return s.t[s.i] if s.i < len(s.t) else ''
    def take(s): c=s.t[s.i]; s.i+=1; return c

def ref_read(string):
    """returns nodes(list of (name, annot_str)), edges dict {(a,b):order}"""
    assert string[0]=='{' and string[-1]=='}'
    tk = Tok(string[1:-1])
    nodes=[]; edges={}
    rings={}
    def add_edge(a,b,o):
        key=(min(a,b),max(a,b))
        if key in edges or a==b: raise SyntaxError('dup')
        edges[key]=o
    def parse_node():
        assert tk.take()=='['; assert tk.take()=='#'
        s=''
        while tk.peek()!=']': s+=tk.take()
        tk.take()
        return s
    def parse_int():
        s=''
        while tk.peek().isdigit(): s+=tk.take()
        return int(s)
    # A "unit" is: node ringbonds [|n]   or   node ringbonds ( branches... ) with |n after a branch
    # We build an AST first, expanding multipliers textually in the AST, then number nodes.
    # AST: chain = list of items; item = ('node', name, ringbonds, bond_to_prev) / branch handled as child chains
    def parse_chain():
        """returns list of elements: dict(name, rings=[(order,marker)], branches=[(order, chain, mult, between)], mult, bond(None=default))"""
        elems=[]
        pending_bond=None
        while tk.peek() and tk.peek()!=')':
            c=tk.peek()
            if c in SYM and c!='#' or (c=='#'):
                # careful: '#' as bond vs '[#'
                pending_bond=SYM[tk.take()]
                continue
            if c=='[':
                name=parse_node()
                el=dict(name=name, rings=[], branches=[], mult=1, bond=pending_bond, after=None)
                pending_bond=None
                # ring bonds
                while True:
                    save=tk.i
                    o=None
                    if tk.peek() in SYM:
                        o=SYM[tk.take()]
                    if tk.peek().isdigit():
                        el['rings'].append((o, int(tk.take())))
                    elif tk.peek()=='%':
                        tk.take(); el['rings'].append((o, parse_int()))
                    else:
                        tk.i=save; break
                if tk.peek()=='|':
                    tk.take(); el['mult']=parse_int()
                # branches
                while True:
                    save=tk.i
                    o=None
                    if tk.peek() in SYM:
                        o=SYM[tk.take()]
                    if tk.peek()=='(':
                        tk.take()
                        sub=parse_chain()
                        assert tk.take()==')'
                        br=dict(order=o, chain=sub, mult=1, between=None)
                        # multiplier: optional bond symbol then |n
                        save2=tk.i
                        b=None
                        if tk.peek() in SYM:
                            b=SYM[tk.take()]
                        if tk.peek()=='|':
                            tk.take(); br['mult']=parse_int(); br['between']=b
                        else:
                            tk.i=save2
                        el['branches'].append(br)
                    else:
                        tk.i=save; break
                elems.append(el)
            else:
                raise ValueError('unexpected '+c+' in '+string)
        assert pending_bond is None
        return elems
    ast=parse_chain()
    assert tk.i==len(tk.t), (string, tk.i)
    return ast

def expand(ast):
    """write the longhand: returns new AST w/out multipliers"""
    import copy
    out=[]
    for el in ast:
        el=copy.deepcopy(el)
        for br in el['branches']:
            br['chain']=expand(br['chain'])
        brm=[b for b in el['branches'] if b['mult']>1]
        if el['mult']>1:
            assert not el['rings']
            n=el['mult']; el['mult']=1
            for k in range(n):
                e2=copy.deepcopy(el)
                if k>0: e2['bond']=None   # hmm: bond between copies = bond following the node (the next bond) per reader
                if k<n-1: e2['branches']=[]
                out.append(e2)
        elif brm:
            # unit = anchoring node + that (last-position or not) branch; first copy is the written element
            assert len(brm)==1
            br=brm[0]; n=br['mult']; between=br['between']; br['mult']=1; br['between']=None
            k=el['branches'].index(br)
            first=copy.deepcopy(el); later=first['branches'][k+1:]; first['branches']=first['branches'][:k+1]
            out.append(first)
            for c in range(1,n):
                e2=copy.deepcopy(el); e2['bond']=between; e2['rings']=[]
                e2['branches']=[copy.deepcopy(br)]
                if c==n-1: e2['branches']+=later
                out.append(e2)
            if n==1: first['branches']+=later
        else:
            out.append(el)
    return out

def build(ast):
    nodes=[]; edges={}; rings={}
    def add_edge(a,b,o):
        key=(min(a,b),max(a,b))
        if key in edges or a==b: raise SyntaxError('dup')
        edges[key]=o
    def walk(chain, prev, first_bond):
        for idx,el in enumerate(chain):
            assert el['mult']==1
            cur=len(nodes); nodes.append(el['name'])
            if prev is not None:
                o = el['bond']
                if idx==0 and first_bond is not None:
                    assert o is None
                    o=first_bond
                add_edge(prev,cur,1 if o is None else o)
            for (o,m) in el['rings']:
                if m in rings:
                    a,oo=rings.pop(m)
                    add_edge(a,cur, 1 if oo is None else oo)
                else:
                    rings[m]=(cur,o)
            for br in el['branches']:
                assert br['mult']==1
                walk(br['chain'], cur, br['order'])
            prev=cur
    walk(ast, None, None)
    if rings: raise SyntaxError('dangling')
    return nodes, edges

def ref_graph(string, longhand=True):
    ast=ref_read(string)
    return build(expand(ast))

def unparse(ast):
    s=''
    for el in ast:
        if el['bond'] is not None: s+=INV[el['bond']]
        s+='[#'+el['name']+']'
        for (o,m) in el['rings']:
            if o is not None: s+=INV[o]
            s+= str(m) if m<10 and not el.get('pct') else '%%%02d'%m
        if el['mult']>1: s+='|%d'%el['mult']
        for br in el['branches']:
            if br['order'] is not None: s+=INV[br['order']]
            s+='('+unparse(br['chain'])+')'
            if br['mult']>1:
                if br['between'] is not None: s+=INV[br['between']]
                s+='|%d'%br['mult']
    return s
INV={v:k for k,v in SYM.items()}
