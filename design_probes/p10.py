import random
from molgen import *
rng=random.Random(3)
for it in range(25):
    g=gen_molecule(rng, max_heavy=10)
    case=build_case(rng,g,partition(rng,g))
    if case: print(full_string(rng,case)[0])
