import networkx as nx, itertools
from cgsmiles import MoleculeResolver
def ez(s):
    try:
        cg,aa=MoleculeResolver.from_string(s).resolve()
    except Exception as e:
        return ('EXC',type(e).__name__,str(e)[:70])
    out=set()
    def sig(n): return aa.nodes[n]['element']+''.join(sorted(aa.nodes[x]['element'] for x in aa[n]))
    for n,lst in aa.nodes(data='ez_isomer'):
        if not lst: continue
        for (l1,a1,a2,l2,t) in lst:
            ok = aa.has_edge(l1,a1) and aa.has_edge(a1,a2) and aa.has_edge(a2,l2) and aa.edges[a1,a2]['order']==2
            key=tuple(sorted([sig(l1),sig(l2)]))
            out.add((key,t,ok))
    return sorted(out)
base="F/C=C/C(O)/C=C\\Cl"   # two double bonds
print('single', ez("{[#A]}.{#A=%s}"%base))
# cut at single bond C(O) - between the two double bonds is marked; cut O off, and cut elsewhere
cases={
 'cutO': ("{#A=F/C=C/C([$])/C=C\\Cl,#B=[$]O}", ['A','B']),
 'cut_mid_dbl1': ("{#A=F/C=[$],#B=[$]=C/C(O)/C=C\\Cl}", ['A','B']),
 'cut_mid_dbl2': ("{#A=F/C=C/C(O)/C=[$],#B=[$]=C\\Cl}", ['A','B']),
 'three': ("{#A=F/C=[$a],#B=[$a]=C/C(O)/C=[$b],#C=[$b]=C\\Cl}", ['A','B','C']),
}
for name,(frag,names) in cases.items():
    for perm in itertools.permutations(names):
        # base graph must keep adjacency: chain A-B(-C) in given listing order
        if len(names)==2: b="{[#%s][#%s]}"%perm
        else:
            # B is the middle node; write chain starting from perm[0]
            adj={'A':['B'],'B':['A','C'],'C':['B']}
            # produce a valid string listing nodes in perm order using branches
            p=perm
            if p[1] in adj[p[0]] and p[2] in adj[p[1]]: b="{[#%s][#%s][#%s]}"%p
            elif p[1] in adj[p[0]] and p[2] in adj[p[0]]: b="{[#%s]([#%s])[#%s]}"%p
            else: continue
        print(name, perm, ez(b+'.'+frag))
