from cgsmiles.read_fragments import strip_bonding_descriptors
tests = ["C[$]1CCC1", "C1[$]CCC1", "C=1[$]CCC=1","C1=[$]CCC1","C%12[$]CCC%12", "Cl[$]", "[$]Cl", "Br[>]C", "C(C[$])[<]", "C(C)(C)[$]", "[Na+][$]", "[C;x=R][$]([H;w=0.5])C",
 "C.[$]C", "C$[$]C", "C:[$]c", "CC(=O)[$]", "C(=[$])C", "C(=[$A])=[$B]", "[$]=C", "[$]#C[>]", "[$][$]C", "[$]=[>]C", "C[$]=C", "C[$]=[$]C", "N[$]C(=O)[<]", "c1cc[$]ccc1", "c1ccccc1[$]", "C/C=C/[$]", "[#A][$][#B]", "[#A;0.5][$]=[#B]1[#C][#D]1[>]", "[#A]([#B][$])[#C][<]", "[#A]|3[$]", "[CH2][$]", "[13CH3][$]","[O-][$]","Si[$]","[Si][$]", "CBr[$]", "B[$]r", "C[$a1]C", "C[>a]=C", "CC=[$]=[$]CC"]
for t in tests:
    try:
        s,b,ez,at = strip_bonding_descriptors(t)
        print(f"{t:40s} -> {s:25s} {dict(b)} ez={ez} attrs={ {k:v for k,v in at.items()} }")
    except Exception as e:
        print(f"{t:40s} EXC {type(e).__name__} {e}")
