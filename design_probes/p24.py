import random, sys, collections, traceback
import networkx as nx
from cgsmiles import MoleculeResolver, read_cgsmiles
from cgsmiles.read_fragments import read_fragments
from molgen import VAL
LIB_AA = ["[$]COC[$]", "[>]CC[<]", "[$]CC[$][$]", "[$]CC[$]c1ccccc1", "[$]O", "[<]C", "[>]N", "[$A]CC[$B]", "[$A]O[$A]", "[$]=CC=[$]", "[$]=C[$]", "[>]=C(C)[<]", "[$][NH2+][$]", "[$]C(=O)[O-]",
          "[$]C[$]1CC[$]C1", "[<][>]C[$]", "[$]S[$][$][$]", "[!]CC[$]", "[!]C(C)C[!]", "[$]cc[$]", "Cl[$]", "[$][$]C[<][>]O"]
LIB_CG = ["[$][#X][#Y][$]", "[>][#X][<]", "[$][#X]([#Y][$])[#Z][$]", "[$][#X]1[#Y][#Z]1[$]", "[$A][#X][$B]", "[$]=[#X][#Y]=[$]", "[<][#P]", "[>][#Q][>]", "[!][#X][#Y][$]", "[$][#X][$][#Y][$]"]
def gen_base(rng, names):
    # clean grammar classes only: chain, branches depth<=1 single, rings, node multipliers
    n=rng.randint(1,6); toks=[]; s=''; open_rings=[]
    cnt=0
    def node():
        return '[#%s]'%rng.choice(names)
    i=0
    while i<n:
        if i>0 and rng.random()<0.3: s+=rng.choice(['=','.','#','-'])
        s+=node(); cnt+=1
        if rng.random()<0.15 and len(open_rings)<2:
            m=rng.choice([1,2,3]); 
            if m not in open_rings: 
                s+=(rng.choice(['','=','.']) )+str(m); open_rings.append((m,cnt))
                open_rings[-1]=m
        elif open_rings and rng.random()<0.3 and i>1:
            s+=str(open_rings.pop())
        elif rng.random()<0.2: s+='|%d'%rng.randint(2,3)
        if rng.random()<0.25:
            s+=rng.choice(['','','='])+'('+node()+(node() if rng.random()<0.5 else '')+')'
            if rng.random()<0.3: s+='|2'
        i+=1
    if open_rings: return None
    return '{'+s+'}'
def template_desc(frag):
    return {n:list(d.get('bonding',[]) or []) for n,d in frag.nodes(data=True)}
def compatible_ref(a,b,legacy):
    ka,kb=a[0],b[0]
    if legacy:
        if ka==kb and ka in '$!': return a==b
        if {ka,kb}=={'<','>'}: return a[1:]==b[1:]
        return False
    return (ka==kb and ka in '$!') or {ka,kb}=={'<','>'}
def check(s, cg, aa, fragd, legacy, all_atom, base):
    errs=[]
    # C02 partition
    cover=set()
    for k in cg.nodes:
        gr=cg.nodes[k].get('graph')
        mem=set(gr.nodes) if gr is not None else set()
        rec={n for n,d in aa.nodes(data=True) if k in d['fragid']}
        if mem!=rec: errs.append(('C02 membership',k,sorted(mem),sorted(rec)))
        cover|=mem
    if cover!=set(aa.nodes): errs.append(('C02 cover',))
    # copy isomorphic to template
    for k in cg.nodes:
        fn=cg.nodes[k]['fragname']
        if fn not in fragd: continue
        tmpl=fragd[fn]
        heavy=[n for n in cg.nodes[k]['graph'].nodes if not (all_atom and aa.nodes[n]['element']=='H' and not any(m[0]==fn for m in aa.nodes[n].get('mapping',[])))]
        heavy=[n for n in heavy if 'mapping' in aa.nodes[n]]
        sub=aa.subgraph(heavy)
        # via mapping attr
        m={}
        for n in heavy:
            for (f,t) in aa.nodes[n]['mapping']:
                if f==fn and k in aa.nodes[n]['fragid']: m.setdefault(t,[]).append(n)
        if set(m)!=set(tmpl.nodes): errs.append(('C02 copy nodes',k,sorted(m),sorted(tmpl.nodes)))
    # C03
    pair_count=collections.Counter()
    for u,v,d in aa.edges(data=True):
        fu,fv=set(aa.nodes[u]['fragid']),set(aa.nodes[v]['fragid'])
        if fu&fv: continue
        if 'bonding' not in d: errs.append(('C03 inter edge without bonding',u,v)); continue
        ok=False
        for ku in fu:
            for kv in fv:
                if base.has_edge(ku,kv) and base.edges[ku,kv]['order']>=1: ok=True; pair_count[frozenset((ku,kv))]+=1
        if not ok: errs.append(('C03 bond without base edge',u,v))
        b0,b1=d['bonding']
        if not compatible_ref(b0,b1,legacy): errs.append(('C03 incompatible',b0,b1))
    for key,c in pair_count.items():
        a,b=tuple(key)
        if c>base.edges[a,b]['order']: errs.append(('C03 too many',key,c))
    # C09
    if all_atom:
        for n,d in aa.nodes(data=True):
            if d['element']=='H':
                if aa.degree(n)!=1: errs.append(('C09 H degree',n))
                else:
                    p=next(iter(aa[n]))
                    if not d.get('single_h_frag') and any(d.get(a)!=aa.nodes[p].get(a) for a in ('fragid','fragname','weight')): errs.append(('C09 H attrs',n,d.get('fragid'),aa.nodes[p].get('fragid')))
                continue
            hv=sum(e['order'] for _,x,e in aa.edges(n,data=True) if aa.nodes[x]['element']!='H')
            nh=sum(1 for x in aa[n] if aa.nodes[x]['element']=='H')
            vals=VAL.get((d['element'],d.get('charge',0)))
            if not vals: continue
            fit=[v for v in vals if v>=hv]
            if not fit: continue
            if nh!=fit[0]-hv: errs.append(('C09 valence',n,d['element'],hv,nh))
    # C12 numbering
    if sorted(aa.nodes)!=list(range(len(aa))): errs.append(('C12 keys',))
    return errs
seed=int(sys.argv[1]); N=int(sys.argv[2]); rng=random.Random(seed)
stats=collections.Counter(); ex=collections.defaultdict(list)
for it in range(N):
    all_atom=rng.random()<0.6; legacy=rng.random()<0.5
    lib=LIB_AA if all_atom else LIB_CG
    k=rng.randint(1,3); frs=rng.sample(lib,k); names=['F%d'%i for i in range(k)]
    base_s=gen_base(rng,names)
    if base_s is None: continue
    s=base_s+'.{'+','.join('#%s=%s'%(n,f) for n,f in zip(names,frs))+'}'
    try:
        r=MoleculeResolver.from_string(s,last_all_atom=all_atom,legacy=legacy)
        fragd={k:v.copy() for k,v in r.fragment_dicts[0].items()}
        base=r.molecule.copy()
        cg,aa=r.resolve()
    except SyntaxError as e:
        stats['SyntaxError']+=1; continue
    except Exception as e:
        stats['exc_'+type(e).__name__]+=1; ex['exc_'+type(e).__name__].append((s,str(e)[:60])); continue
    errs=check(s,cg,aa,fragd,legacy,all_atom,base)
    if errs:
        for e in errs: stats[e[0]]+=1; ex[e[0]].append((s,legacy,e))
    else: stats['ok']+=1
print(dict(stats))
for k,v in ex.items():
    for x in sorted(v,key=lambda z:len(z[0]))[:4]: print(k,x)
