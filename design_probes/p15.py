import random, collections, traceback
import networkx as nx
from cgsmiles.sample import MoleculeSampler
from cgsmiles import read_fragments
def run(fragstr, seed, target, **kw):
    s=MoleculeSampler.from_fragment_string(fragstr, seed=seed, **kw)
    m=s.sample(target)
    return s,m
configs=[
 ("{#PEO=[>]COC[<]}", dict(polymer_reactivities={'>':0.5,'<':0.5})),
 ("{#PMMA=[>]C(C)C[<]C(=O)OC,#PS=[>]CC[<]c1ccccc1}", dict(polymer_reactivities={'>':0.5,'<':0.5})),
 ("{#PMMA=[$A]C(C)C[$B]C(=O)OC,#PS=[$C]CC[$D]c1ccccc1}", dict(polymer_reactivities={'$A':0.5,'$B':0,'$C':0.5,'$D':0.0},
    fragment_reactivities={'$A': {'$A': 0., '$C': 0., '$B': 0.7, '$D': 0.3},'$B': {'$A': 0.7, '$C': 0.3, '$B': 0.0, '$D': 0.0 },'$C': {'$A': 0., '$C': 0., '$B': 0.3, '$D': 0.7},'$D': {'$A': 0.3, '$C': 0.7, '$B': 0.0, '$D': 0.0 }})),
 ("{#PMA=[>]CC[<]C(=O)OC[>A],#PEG=[<A]COC[>A][$A],#OH=[$B]O}", dict(terminal_bonds=['$A','$B'], polymer_reactivities={'<': 0.1, '>': 0.1,'>A': 0.8, '<A':0.8,'$A':0.3, '$B':0.0}, fragment_reactivities={'$A': {'$A':0, '$B': 1.0},}, all_atom=True)),
 ("{#GLC=[$A][#A]1[#B][$B][#C]1[$C]}", dict(fragment_masses={'GLC': 165}, polymer_reactivities={'$A': 0.8, '$C': 0.1, '$B': 0.1}, fragment_reactivities={'$A': {'$A': 0.0, '$C': 1.0, '$B': 0.0},'$B': {'$A': 1.0, '$C': 0.0, '$B': 0.0},'$C': {'$A':1.0, '$C':0.0, '$B':0.0}}, all_atom=False)),
 ("{#A=[$]=CC=[$],#B=[$]=CN[>],#C=[<]O}", dict(polymer_reactivities={'$2':0.5,'>':0.3,'<':0.2})),
]
for fragstr,kw in configs:
    for seed in range(3):
        try:
            s,m=run(fragstr, seed, 300, **kw)
            s2,m2=run(fragstr, seed, 300, **kw)
            same = sorted(m.nodes(data='fragname'))==sorted(m2.nodes(data='fragname')) and sorted(map(sorted,m.edges))==sorted(map(sorted,m2.edges))
            nfr=len({tuple(d['fragid']) for n,d in m.nodes(data=True)})
            bond=[(a,b,d['bonding']) for a,b,d in m.edges(data=True) if 'bonding' in d]
            print(fragstr[:30], seed, 'nodes',len(m),'frags',nfr,'interbonds',len(bond),'connected',nx.is_connected(m),'same',same, 'keys ok', list(sorted(m.nodes))==list(range(len(m))), s.fragment_masses)
        except Exception as e:
            print(fragstr[:30], seed, 'EXC', type(e).__name__, str(e)[:100]); traceback.print_exc(limit=3)
