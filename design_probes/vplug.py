import collections, copy
import networkx as nx
import cgsmiles.resolve as R
from molgen import VAL
STATS=collections.Counter(); ERR=[]
def compatible_ref(a,b,legacy):
    ka,kb=a[0],b[0]
    if legacy:
        if ka==kb and ka in '$!': return a==b
        if {ka,kb}=={'<','>'}: return a[1:]==b[1:]
        return False
    return (ka==kb and ka in '$!') or {ka,kb}=={'<','>'}
orig=R.MoleculeResolver.resolve
def resolve(self):
    all_atom=(self.resolution_counter == self.resolutions - 1 and self.last_all_atom)
    base=self.molecule.copy()
    fragd=self.fragment_dicts[self.resolution_counter]
    cg,aa=orig(self)
    STATS['resolve']+=1
    errs=[]
    cover=set()
    for k in cg.nodes:
        gr=cg.nodes[k].get('graph'); mem=set(gr.nodes) if gr is not None else set()
        rec={n for n,d in aa.nodes(data=True) if k in d['fragid']}
        if mem!=rec: errs.append(('C02 membership',k))
        cover|=mem
        fn=cg.nodes[k]['fragname']
        if fn in fragd:
            m={}
            for n in mem:
                for (f,t) in aa.nodes[n].get('mapping',[]):
                    if f==fn: m.setdefault(t,[]).append(n)
            if set(m)!=set(fragd[fn].nodes): errs.append(('C02 copy nodes',k,sorted(m),sorted(fragd[fn].nodes)))
    if cover!=set(aa.nodes): errs.append(('C02 cover',))
    cnt=collections.Counter()
    for u,v,d in aa.edges(data=True):
        fu,fv=set(aa.nodes[u]['fragid']),set(aa.nodes[v]['fragid'])
        if fu&fv: continue
        if 'bonding' not in d: errs.append(('C03 nobonding',u,v)); continue
        ok=any(base.has_edge(a,b) and base.edges[a,b]['order']>=1 for a in fu for b in fv)
        if not ok: errs.append(('C03 nobase',u,v))
        if not compatible_ref(d['bonding'][0],d['bonding'][1],self.legacy): errs.append(('C03 incompat',d['bonding']))
    if all_atom:
        for n,d in aa.nodes(data=True):
            if d['element']=='H':
                if aa.degree(n)!=1: errs.append(('C09 Hdeg',n)); continue
                if 'mapping' in d: continue
                p=next(iter(aa[n]))
                if any(d.get(a)!=aa.nodes[p].get(a) for a in ('fragid','fragname','weight')): errs.append(('C09 Hattr',n))
                continue
            hv=sum(e['order'] for _,x,e in aa.edges(n,data=True) if aa.nodes[x]['element']!='H')
            nh=sum(1 for x in aa[n] if aa.nodes[x]['element']=='H')
            vals=VAL.get((d['element'],d.get('charge',0)))
            if not vals: continue
            fit=[v for v in vals if v>=hv]
            if fit and nh!=fit[0]-hv: errs.append(('C09 val',n,d['element'],hv,nh))
    if sorted(aa.nodes)!=list(range(len(aa))): errs.append(('C12 keys',))
    for n,lst in aa.nodes(data='ez_isomer'):
        for (l1,a1,a2,l2,t) in (lst or []):
            if not (aa.has_edge(l1,a1) and aa.has_edge(a1,a2) and aa.has_edge(a2,l2) and aa.edges[a1,a2]['order']==2 and l1==n): errs.append(('C15 ref',n))
    for e in errs: ERR.append(e); STATS[e[0]]+=1
    return cg,aa
R.MoleculeResolver.resolve=resolve
def pytest_sessionfinish(session, exitstatus):
    print("\nVMON", dict(STATS)); print(ERR[:10])
