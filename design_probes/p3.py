import networkx as nx
from cgsmiles.write_cgsmiles import write_cgsmiles_fragments
from cgsmiles.read_fragments import read_fragments, strip_bonding_descriptors
for s in ["{#A=CC[$a]=[$b]CC}", "{#A=CC=[$a][$b]CC}", "{#A=[$]=CC[>]#[<]}", "{#A=[$].CC}", "{#A=[$]C=1CCC1[>]}", "{#A=[$][O-]CC[NH3+][<]}",
          "{#A=[$]c1ccccc1[$]}", "{#A=[!]Cl}", "{#A=C(=[$])(C[>])[<]}", "{#A=[$]C/C=C/C}", "{#A=[$][C;x=S](F)(Cl)Br}","{#A=[$]C[C;0.5]}"]:
    for aa in (True,):
        try:
            f = read_fragments(s, all_atom=aa)
            out = write_cgsmiles_fragments(f, smiles_format=aa)
            f2 = read_fragments(out, all_atom=aa)
            print(s, out, dict(f['A'].nodes(data='bonding')), dict(f2['A'].nodes(data='bonding')))
            print('      ', [ (n, {k:v for k,v in d.items() if k not in ('_pos','_atom_str','fragname','fragid','atomname','bonding')}) for n,d in f['A'].nodes(data=True)])
            print('      ', [ (n, {k:v for k,v in d.items() if k not in ('_pos','_atom_str','fragname','fragid','atomname','bonding')}) for n,d in f2['A'].nodes(data=True)])
        except Exception as e:
            import traceback; traceback.print_exc()
            print(s, "EXC", type(e).__name__, e)
for s in ["{#A=[$][#X][#Y]=[#Z][>]}", "{#A=[$][#X]1[#Y][#Z]1[>]}", "{#A=[$]=[#X;q=1]([#Y])[#Z][>][<]}"]:
    f = read_fragments(s, all_atom=False)
    out = write_cgsmiles_fragments(f, smiles_format=False)
    print(s, out)
    f2 = read_fragments(out, all_atom=False)
    print('   ', list(f['A'].nodes(data=True)), list(f['A'].edges(data=True)))
    print('   ', list(f2['A'].nodes(data=True)), list(f2['A'].edges(data=True)))
