import numpy as np, networkx as nx, warnings, collections, random
warnings.simplefilter('ignore')
from cgsmiles.graph_layout import vespr_layout
atlas=[g for g in nx.graph_atlas_g() if 2<=len(g)<=7 and nx.is_connected(g)]
stats=collections.Counter(); worst=1e9; bad=[]
rng=random.Random(0)
for i,g in enumerate(atlas):
    for seed in range(2):
        np.random.seed(seed)
        nodes=list(g.nodes); perm=nodes[:]; rng.shuffle(perm)
        h=nx.relabel_nodes(g,dict(zip(nodes,perm)))
        b=rng.choice([0.5,1,1.5,3])
        try: pos=vespr_layout(h,default_bond=b)
        except Exception as e: stats['exc_'+type(e).__name__]+=1; bad.append((i,len(g),g.number_of_edges(),str(e)[:50])); continue
        arr=np.array([pos[n] for n in h.nodes])
        d=[np.linalg.norm(pos[a]-pos[c]) for a,c in h.edges]
        if not np.all(np.isfinite(arr)): stats['nonfinite']+=1; bad.append((i,'nonfinite')); continue
        worst=min(worst,min(d)/b)
        if min(d)<1e-6*b: stats['coincide']+=1; bad.append((i,'coincide'))
        elif abs(np.mean(d)-b)>1e-9*b: stats['mean']+=1
        else: stats['ok']+=1
print(len(atlas), dict(stats), 'worst min-bond/b', worst); print(bad[:10])
for n in (20,40): 
    for name,g in (('path',nx.path_graph(n)),('cycle',nx.cycle_graph(n)),('star',nx.star_graph(n)),('grid',nx.grid_2d_graph(4,n//4)),('tree',nx.random_labeled_tree(n,seed=1))):
        np.random.seed(0); pos=vespr_layout(g,default_bond=1.0); d=[np.linalg.norm(pos[a]-pos[c]) for a,c in g.edges]; print(name,n,round(min(d),3),round(np.mean(d),6))
