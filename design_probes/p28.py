import networkx as nx
from cgsmiles import MoleculeResolver
s3="{[#G0][#G1]}.{#G0=[#F0][#F1]=[$a],#G1=[$a]=[#F2]}.{#F0=C[$x],#F1=[$x]C[$y]C[$z],#F2=[$y]OC[$z]}"
s2="{[#F0][#F1]=[#F2]}.{#F0=C[$x],#F1=[$x]C[$y]C[$z],#F2=[$y]OC[$z]}"
nm=lambda a,b:a['element']==b['element']; em=lambda a,b:a['order']==b['order']
r=MoleculeResolver.from_string(s3); steps=list(r.resolve_iter())
print([ (len(a),len(b)) for a,b in steps])
print('coarse of step2 is fine of step1:', steps[1][0] is steps[0][1])
a=MoleculeResolver.from_string(s3).resolve_all()[1]; b=MoleculeResolver.from_string(s2).resolve_all()[1]
print(nx.is_isomorphic(a,b,node_match=nm,edge_match=em), nx.is_isomorphic(a,steps[-1][1],node_match=nm,edge_match=em))
print([(n,d['atomname'],d['fragid'],d.get('bonding')) for n,d in steps[0][1].nodes(data=True)], list(steps[0][1].edges(data=True)))
r=MoleculeResolver.from_string(s3); m1=r.resolve(); m2=r.resolve(); print(nx.is_isomorphic(m2[1],a,node_match=nm,edge_match=em))
