import copy, networkx as nx
from cgsmiles import MoleculeResolver
from cgsmiles.read_fragments import read_fragments
def dump(g): return (sorted((n,repr(sorted(d.items(),key=str))) for n,d in g.nodes(data=True)), sorted((min(a,b),max(a,b),repr(sorted(d.items()))) for a,b,d in g.edges(data=True)))
fd=read_fragments("{#A=[$]C/C=C/C[$],#B=[!]CC[$][!],#C=[$][C;x=R](F)c1ccccc1}")
before={k:dump(v) for k,v in fd.items()}
outs=[]
for i in range(3):
    r=MoleculeResolver.from_fragment_dicts("{[#A][#B]1[#B][#B]1[#C]}",[fd])
    cg,aa=r.resolve(); outs.append(dump(aa))
print('lib unchanged', before=={k:dump(v) for k,v in fd.items()}, 'same out', outs[0]==outs[1]==outs[2])
for k in fd:
    if before[k]!=dump(fd[k]): 
        print(k); print(before[k][0]); print(dump(fd[k])[0])
