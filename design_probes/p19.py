import networkx as nx, sys
import cgsmiles.resolve as R
from cgsmiles import MoleculeResolver
import cgsmiles.pysmiles_utils as PU
orig=PU.rebuild_h_atoms
def spy(mol, *a, **k):
    print('   pre-rebuild:', [(n,d['element'],d.get('aromatic'),d.get('hcount'),d.get('fragid')) for n,d in mol.nodes(data=True)])
    print('   edges:', [(a,b,d.get('order')) for a,b,d in mol.edges(data=True)])
    return orig(mol,*a,**k)
R.rebuild_h_atoms=spy
for s in sys.argv[1:]:
    print(s)
    try:
        cg,aa=MoleculeResolver.from_string(s).resolve()
        print('  OK', len(aa))
    except Exception as e: print('  EXC', type(e).__name__, str(e)[:60])
