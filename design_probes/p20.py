import networkx as nx, traceback
from cgsmiles import MoleculeResolver
def ez(s):
    try:
        cg,aa=MoleculeResolver.from_string(s).resolve()
    except Exception as e:
        return ('EXC',type(e).__name__,str(e)[:70])
    out=set()
    for n,lst in aa.nodes(data='ez_isomer'):
        if not lst: continue
        for (l1,a1,a2,l2,t) in lst:
            ok = aa.has_edge(l1,a1) and aa.has_edge(a1,a2) and aa.has_edge(a2,l2) and aa.edges[a1,a2]['order']==2
            out.add((aa.nodes[l1]['element'],aa.nodes[a1]['element'],aa.nodes[a2]['element'],aa.nodes[l2]['element'],t,ok))
    return sorted(out)
# F/C=C/Cl (trans) in different cuts and fragment orders
tests=[
 "{[#A]}.{#A=F/C=C/Cl}",
 "{[#A]}.{#A=Cl/C=C/F}",
 "{[#A]}.{#A=C(/F)=C/Cl}",
 "{[#A][#B]}.{#A=F/C=[$],#B=[$]=C/Cl}",
 "{[#B][#A]}.{#A=F/C=[$],#B=[$]=C/Cl}",
 "{[#A][#B]}.{#A=F[$],#B=[$]/C=C/Cl}",
 "{[#B][#A]}.{#A=F[$],#B=[$]/C=C/Cl}",
 "{[#A][#B]}.{#A=F/[$],#B=[$]C=C/Cl}",
 "{[#A][#B]}.{#A=F/C=C[$],#B=[$]/Cl}",
 "{[#B][#A]}.{#A=F/C=C[$],#B=[$]/Cl}",
 "{[#A][#B]}.{#A=F/C=C/[$],#B=[$]Cl}",
 "{[#B][#A]}.{#A=F/C=C/[$],#B=[$]Cl}",
 "{[#A]}.{#A=F/C=C\Cl}",
 "{[#A][#B]}.{#A=F/C=[$],#B=[$]=C\Cl}",
 "{[#B][#A]}.{#A=F/C=[$],#B=[$]=C\Cl}",
]
for t in tests: print(t, ez(t))
