import random, sys, networkx as nx
from refparse import *
from cgsmiles import read_cgsmiles
NAMES=['A','B','C','PEO','X1']
def gen_chain(rng, depth, budget, openrings, allow_mult):
    n=rng.randint(1,3)
    chain=[]
    for i in range(n):
        el=dict(name=rng.choice(NAMES), rings=[], branches=[], mult=1, bond=None)
        if i>0 and rng.random()<0.4: el['bond']=rng.choice([0,1,2,3,4])
        if allow_mult and rng.random()<0.2: el['mult']=rng.randint(2,3)
        if depth<2 and rng.random()<0.4:
            nb=rng.randint(1,2)
            for b in range(nb):
                br=dict(order=rng.choice([None,None,0,2,3]), chain=gen_chain(rng, depth+1, budget, openrings, allow_mult), mult=1, between=None)
                el['branches'].append(br)
            if allow_mult and el['mult']==1 and rng.random()<0.3:
                br=el['branches'][-1]; br['mult']=rng.randint(2,3); br['between']=rng.choice([None,None,2,0,4])
        chain.append(el)
    return chain
def run(seed, allow_mult, N):
    rng=random.Random(seed); bad={}
    for k in range(N):
        ast=gen_chain(rng,0,0,[],allow_mult)
        s='{'+unparse(ast)+'}'
        try:
            nodes,edges=build(expand(ref_read(s)))
        except SyntaxError: continue
        try:
            g=read_cgsmiles(s)
            got_nodes=[g.nodes[n]['fragname'] for n in sorted(g.nodes)]
            got_edges={(min(a,b),max(a,b)):o for a,b,o in g.edges(data='order')}
            ok = got_nodes==nodes and got_edges==edges and list(g.nodes)==list(range(len(nodes)))
            if not ok:
                ref=nx.Graph(); 
                for i,nm in enumerate(nodes): ref.add_node(i,fragname=nm)
                for (a,b),o in edges.items(): ref.add_edge(a,b,order=o)
                iso=nx.is_isomorphic(ref,g,node_match=lambda x,y:x['fragname']==y['fragname'],edge_match=lambda x,y:x['order']==y['order'])
                bad.setdefault(('iso' if iso else 'noniso'),[]).append(s)
        except Exception as e:
            bad.setdefault(type(e).__name__,[]).append(s)
    return bad
for am in (False, True):
    bad=run(1,am,3000)
    print("allow_mult",am,{k:len(v) for k,v in bad.items()})
    for k,v in bad.items():
        for s in sorted(v,key=len)[:6]: print('   ',k,s)
