import vplug, cgsmiles
from cgsmiles import MoleculeResolver
tests=["""{[#A0][#B0]}.{#A0=[!][#A1a][#A1b][>],#B0=[!][#A1a][#B1b]}.{#A1a=[<][#A2a]([#A2b][#A2c)[#A2c][!],#A1b=[!][#A2c][#A2d][>],#B1b=[<][#B2c][>]([#B2d]1[#B2e][#B2f]1)}"""]
for s in tests:
    r=MoleculeResolver.from_string(s,last_all_atom=False)
    for lo,hi in r.resolve_iter():
        print([(n,d['fragname'],sorted(d['graph'].nodes)) for n,d in lo.nodes(data=True)])
        print([(n,d.get('atomname'),d['fragid'],d.get('mapping')) for n,d in hi.nodes(data=True)])
    print(vplug.ERR)
