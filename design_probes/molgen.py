"""Probe: random molecule generator, partitioner and CGsmiles renderer (independent of cgsmiles)."""
import random, itertools
import networkx as nx

VAL = {('C',0):[4], ('N',0):[3,5], ('O',0):[2], ('S',0):[2,4,6], ('P',0):[3,5], ('F',0):[1], ('Cl',0):[1], ('Br',0):[1],
       ('N',1):[4], ('O',-1):[1], ('S',-1):[1], ('O',1):[3], ('N',-1):[2], ('C',-1):[3], ('H',0):[1]}
ATOMS = [('C',0)]*10 + [('N',0)]*3 + [('O',0)]*3 + [('S',0)]*1 + [('P',0)]*1 + [('F',0),('Cl',0),('Br',0)] + [('N',1),('O',-1)]
SYM = {1:'', 2:'=', 3:'#', 1.5:''}

def free(g, n):
    used = sum(d['order'] for _,_,d in g.edges(n, data=True))
    return g.nodes[n]['cap'] - used

def gen_molecule(rng, max_heavy=12, p_arom=0.3, p_ring=0.25, charged=True):
    g = nx.Graph()
    def add_atom(kind=None, aromatic=False):
        el, ch = kind or rng.choice(ATOMS)
        if not charged and ch != 0: el, ch = 'C', 0
        n = len(g)
        g.add_node(n, element=el, charge=ch, aromatic=aromatic, cap=VAL[(el,ch)][0])
        return n
    def add_arom_ring(anchor):
        ring = []
        npyr = rng.choice([0,0,0,1,2])
        kinds = [('C',0)]*6
        for i in rng.sample(range(1,6), npyr): kinds[i] = ('N',0)
        for k in kinds: ring.append(add_atom(k, aromatic=True))
        for a, b in zip(ring, ring[1:]+ring[:1]): g.add_edge(a, b, order=1.5)
        if anchor is not None: g.add_edge(anchor, ring[0], order=1)
    target = rng.randint(1, max_heavy)
    if rng.random() < p_arom and target >= 6: add_arom_ring(None)
    else: add_atom()
    tries = 0
    while len(g) < target and tries < 200:
        tries += 1
        cands = [n for n in g if free(g, n) >= 1]
        if not cands: break
        a = rng.choice(cands)
        r = rng.random()
        if r < p_arom*0.5 and len(g)+6 <= max_heavy+4:
            add_arom_ring(a); continue
        if r < p_arom*0.5 + p_ring*0.5:
            # ring closure between a and some atom at distance >=2 with free valence, non aromatic both
            if g.nodes[a]['aromatic']: continue
            d = nx.single_source_shortest_path_length(g, a)
            c2 = [n for n in cands if d.get(n, 0) >= 2 and not g.nodes[n]['aromatic'] and d[n] <= 6]
            if c2:
                b = rng.choice(c2)
                o = 1 if rng.random() < 0.8 else min(2, int(free(g,a)), int(free(g,b)))
                g.add_edge(a, b, order=o); continue
        b = add_atom()
        mo = int(min(free(g, a), g.nodes[b]['cap'], 3))
        if g.nodes[a]['aromatic']: mo = 1
        o = rng.choice([1,1,1,2,3][:max(1, {1:3,2:4,3:5}[mo])])
        g.add_edge(a, b, order=o)
    for n in g:
        f = free(g, n)
        assert f >= 0 and f == int(f), (n, f)
        g.nodes[n]['hcount'] = int(f)
    return g

def with_hydrogens(g):
    """expected all-atom molecule: element/charge on nodes, order on edges"""
    m = nx.Graph()
    for n, d in g.nodes(data=True): m.add_node(('a', n), element=d['element'], charge=d['charge'])
    for a, b, d in g.edges(data=True): m.add_edge(('a', a), ('a', b), order=d['order'])
    for n, d in g.nodes(data=True):
        for k in range(d['hcount']):
            m.add_node(('h', n, k), element='H', charge=0); m.add_edge(('a', n), ('h', n, k), order=1)
    return m

def partition(rng, g, k=None):
    """connected partition into k parts; returns node->part"""
    nodes = list(g.nodes)
    k = k or rng.randint(1, min(len(nodes), 5))
    seeds = rng.sample(nodes, k)
    part = {s: i for i, s in enumerate(seeds)}
    frontier = list(seeds)
    while len(part) < len(nodes):
        n = rng.choice(frontier)
        nb = [x for x in g[n] if x not in part]
        if not nb:
            frontier.remove(n); continue
        x = rng.choice(nb); part[x] = part[n]; frontier.append(x)
    return part

RING_POOL = [1,2,3,4,5,6,7,8,9,10,11,12,23,45,99]

def atom_text(d, hcount):
    el, ch, ar = d['element'], d['charge'], d['aromatic']
    name = el.lower() if ar else el
    if ch == 0 and not d.get('bracket'):
        return name
    h = '' if hcount == 0 else ('H' if hcount == 1 else 'H%d' % hcount)
    c = '' if ch == 0 else ('+' if ch == 1 else '-' if ch == -1 else '%+d' % ch)
    return '[' + name + h + c + ']'

def bond_sym(g, a, b):
    o = g.edges[a, b]['order']
    if o == 1 and g.nodes[a]['aromatic'] and g.nodes[b]['aromatic']: return '-'
    return SYM[o]

def render_fragment(rng, g, nodes, desc, start=None, desc_before_ring=None):
    """SMILES for induced subgraph on nodes with descriptors desc: node -> list of (kind,label,order).
    returns text and atom order list (index in text -> node)"""
    sub = g.subgraph(nodes)
    start = start if start is not None else rng.choice(list(nodes))
    order = []; out = []
    visited = set(); ring_edges = {}
    # find dfs tree first to know ring closure edges
    tree = set(); seen = {start}; stack = [start]; nbr_order = {}
    def dfs(n):
        nb = list(sub[n]); rng.shuffle(nb); nbr_order[n] = []
        for x in nb:
            if x not in seen:
                seen.add(x); tree.add(frozenset((n, x))); nbr_order[n].append(x); dfs(x)
    dfs(start)
    closures = [tuple(e) for e in sub.edges if frozenset(e) not in tree]
    pool = RING_POOL[:]; rng.shuffle(pool)
    ring_at = {n: [] for n in nodes}; 
    pos = {}
    # assign position by preorder
    pre = []
    def preorder(n):
        pre.append(n)
        for x in nbr_order[n]: preorder(x)
    preorder(start)
    idx = {n: i for i, n in enumerate(pre)}
    active = []  # digits in use intervals - simple: unique digit per closure
    for (a, b) in closures:
        if idx[a] > idx[b]: a, b = b, a
        m = pool.pop()
        ring_at[a].append((m, bond_sym(g, a, b), True))
        ring_at[b].append((m, '', False))
    def fmt_ring(m, sym):
        return sym + (str(m) if m < 10 else '%%%d' % m)
    def fmt_desc(dl):
        s = ''
        for kind, label, o in dl:
            s += {1: '', 2: '=', 3: '#', 0: '.'}[o] + '[' + kind + label + ']'
        return s
    def emit(n, lead=''):
        d = g.nodes[n]
        s = atom_text(d, d['hcount'])
        dl = desc.get(n, [])
        rings = ''.join(fmt_ring(m, sym) for m, sym, _ in ring_at[n])
        before = rng.random() < 0.5 if desc_before_ring is None else desc_before_ring
        if dl and before: s += fmt_desc(dl) + rings
        else: s += rings + fmt_desc(dl)
        kids = nbr_order[n]
        for i, x in enumerate(kids):
            bs = bond_sym(g, n, x)
            if i < len(kids) - 1: s += '(' + bs + emit(x) + ')'
            else: s += bs + emit(x)
        return s
    text = emit(start)
    # leading descriptor variant for start atom
    return text, pre

def build_case(rng, g, part, kinds=('$','><'), names=None):
    """returns dict with base graph (nx), fragment strings, expected info"""
    nparts = max(part.values()) + 1
    members = {i: [n for n in g if part[n] == i] for i in range(nparts)}
    desc = {}
    cuts = []
    labels = iter('abcdefghijklmnopqrstuvwxyzABCDEFGHIJKLMNOPQRSTUVWXYZ')
    cutcount = {}
    for a, b, d in g.edges(data=True):
        if part[a] != part[b]:
            lab = next(labels)
            kind = rng.choice(kinds)
            o = d['order']; oo = 1 if o == 1.5 else o
            if kind == '$': ka = kb = '$'
            else: ka, kb = rng.choice([('>', '<'), ('<', '>')])
            desc.setdefault(a, []).append((ka, lab, oo)); desc.setdefault(b, []).append((kb, lab, oo))
            key = frozenset((part[a], part[b])); cutcount[key] = cutcount.get(key, 0) + 1
            cuts.append((a, b, lab))
    if any(v > 4 for v in cutcount.values()): return None
    for n in desc: rng.shuffle(desc[n])
    frags = {}
    atom_orders = {}
    for i in range(nparts):
        txt, pre = render_fragment(rng, g, members[i], desc)
        frags['F%d' % i] = txt; atom_orders['F%d' % i] = pre
    base = nx.Graph()
    order = list(range(nparts)); rng.shuffle(order)
    for i in order: base.add_node(i, fragname='F%d' % i)
    for key, v in cutcount.items():
        a, b = tuple(key); base.add_edge(a, b, order=v)
    return dict(base=base, frags=frags, atom_orders=atom_orders, cuts=cuts, desc=desc, members=members)

def write_base(rng, base, start=None):
    """documented-grammar writer for a connected base graph; never emits '))'; returns string and node order"""
    INV = {0: '.', 1: '', 2: '=', 3: '#', 4: '$'}
    start = start if start is not None else rng.choice(list(base.nodes))
    seen = {start}; kids = {}; tree = set()
    def dfs(n):
        kids[n] = []
        nb = list(base[n]); rng.shuffle(nb)
        for x in nb:
            if x not in seen:
                seen.add(x); tree.add(frozenset((n, x))); kids[n].append(x); dfs(x)
    dfs(start)
    pre = []
    def po(n):
        pre.append(n)
        for x in kids[n]: po(x)
    po(start)
    idx = {n: i for i, n in enumerate(pre)}
    ring_at = {n: [] for n in base}
    m = 0
    for a, b in base.edges:
        if frozenset((a, b)) in tree: continue
        if idx[a] > idx[b]: a, b = b, a
        m += 1
        ring_at[a].append((m, INV[base.edges[a, b]['order']])); ring_at[b].append((m, ''))
    def emit(n):
        s = '[#%s]' % base.nodes[n]['fragname']
        for mm, sym in ring_at[n]: s += sym + (str(mm) if mm < 10 else '%%%d' % mm)
        ks = kids[n]
        for i, x in enumerate(ks):
            bs = INV[base.edges[n, x]['order']]
            if i < len(ks) - 1: s += bs + '(' + emit(x) + ')'
            else: s += bs + emit(x)
        return s
    return '{' + emit(start) + '}', pre

def full_string(rng, case):
    b, pre = write_base(rng, case['base'])
    items = list(case['frags'].items()); rng.shuffle(items)
    return b + '.{' + ','.join('#%s=%s' % kv for kv in items) + '}', pre

def build_case_shared(rng, g, part, p_share=0.5, kinds=('$','><')):
    """like build_case but some cut bonds are replaced by sharing an end atom (squash operator)."""
    g = g.copy()
    part = dict(part)
    nparts = max(part.values()) + 1
    labels = iter('abcdefghijklmnopqrstuvwxyzABCDEFGHIJKLMNOPQRSTUVWXYZ')
    desc = {}; cutcount = {}; shared = []
    # choose shares
    cand = {}
    for a, b in list(g.edges):
        if part[a] != part[b]:
            cand.setdefault((b, part[a]), []).append(a); cand.setdefault((a, part[b]), []).append(b)
    done_edges = set()
    keys = list(cand); rng.shuffle(keys)
    nxt = max(g.nodes) + 1
    for (b, P) in keys:
        if rng.random() > p_share: continue
        nbrs = [a for a in cand[(b, P)] if frozenset((a, b)) not in done_edges and g.has_edge(a, b)]
        if not nbrs: continue
        if b >= 10**6: continue
        clone = nxt; nxt += 1
        g.add_node(clone, **dict(g.nodes[b])); part[clone] = P
        for a in nbrs:
            g.add_edge(a, clone, order=g.edges[a, b]['order']); done_edges.add(frozenset((a, b))); g.remove_edge(a, b)
        lab = next(labels)
        desc.setdefault(clone, []).append(('!', lab, 1)); desc.setdefault(b, []).append(('!', lab, 1))
        key = frozenset((P, part[b])); cutcount[key] = cutcount.get(key, 0) + 1
        shared.append((b, clone))
    for a, b, d in g.edges(data=True):
        if part[a] != part[b]:
            lab = next(labels); kind = rng.choice(kinds)
            o = d['order']; oo = 1 if o == 1.5 else o
            if kind == '$': ka = kb = '$'
            else: ka, kb = rng.choice([('>', '<'), ('<', '>')])
            desc.setdefault(a, []).append((ka, lab, oo)); desc.setdefault(b, []).append((kb, lab, oo))
            key = frozenset((part[a], part[b])); cutcount[key] = cutcount.get(key, 0) + 1
    if any(v > 4 for v in cutcount.values()): return None
    for n in desc: rng.shuffle(desc[n])
    members = {i: [n for n in g if part[n] == i] for i in range(nparts)}
    for i in members:
        if not nx.is_connected(g.subgraph(members[i])): return None
    frags = {}
    for i in range(nparts):
        txt, pre = render_fragment(rng, g, members[i], desc)
        frags['F%d' % i] = txt
    base = nx.Graph()
    order = list(range(nparts)); rng.shuffle(order)
    for i in order: base.add_node(i, fragname='F%d' % i)
    for key, v in cutcount.items():
        a, b = tuple(key); base.add_edge(a, b, order=v)
    if not nx.is_connected(base): return None
    return dict(base=base, frags=frags, shared=shared, desc=desc, members=members, natoms_frag=len(g))
