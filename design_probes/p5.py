import sys
from refparse import *
from cgsmiles import read_cgsmiles
for s in sys.argv[1:]:
    try:
        n,e=build(expand(ref_read(s)))
        print(s); print('  ref', n, sorted(e.items()))
    except Exception as ex: print('  ref EXC', type(ex).__name__, ex)
    try:
        g=read_cgsmiles(s)
        print('  got', [g.nodes[k].get('fragname') for k in g.nodes], sorted(((min(a,b),max(a,b)),o) for a,b,o in g.edges(data='order')))
    except Exception as ex: print('  got EXC', type(ex).__name__, ex)
