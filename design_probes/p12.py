import networkx as nx
from cgsmiles import MoleculeResolver
def show(s, **kw):
    print(s)
    try:
        cg,aa=MoleculeResolver.from_string(s, **kw).resolve()
        for k in cg.nodes:
            gr=cg.nodes[k].get('graph')
            print('   cg',k,cg.nodes[k]['fragname'], None if gr is None else [(n,gr.nodes[n].get('element', gr.nodes[n].get('atomname'))) for n in gr.nodes])
        print('   aa', [(n,d.get('element',d.get('atomname')),d['fragid'],d.get('fragname')) for n,d in aa.nodes(data=True)])
        print('   edges', sorted((min(a,b),max(a,b)) for a,b in aa.edges))
    except Exception as e:
        import traceback; traceback.print_exc()
show("{[#A][#B].[#V]}.{#A=CC[$],#B=[$]O}")
show("{[#V].[#A][#B]}.{#A=CC[$],#B=[$]O}")
show("{[#A].([#V])[#B]}.{#A=CC[$],#B=[$]O}")
show("{[#A][#V][#B]}.{#A=CC[$],#B=[$]O}")
show("{[#A].[#B]}.{#A=CC[$],#B=[$]O}")
