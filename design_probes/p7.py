import random, sys, networkx as nx
from refparse import *
import refparse
from cgsmiles import read_cgsmiles
NAMES=['A','B','C','PEO','X1']
def flat(ast, acc):
    for el in ast:
        acc.append(el)
        for br in el['branches']: flat(br['chain'], acc)
    return acc
def unparse2(ast, rng, pct_style):
    s=''
    for el in ast:
        if el['bond'] is not None: s+=INV[el['bond']]
        s+='[#'+el['name']+']'
        for (o,m,style) in el['rings']:
            if o is not None: s+=INV[o]
            s+= str(m) if style=='d' else ('%%%02d'%m if style=='p2' else '%%%d'%m)
        if el['mult']>1: s+='|%d'%el['mult']
        for br in el['branches']:
            if br['order'] is not None: s+=INV[br['order']]
            s+='('+unparse2(br['chain'],rng,pct_style)+')'
    return s
def gen_chain(rng, depth, top=True):
    n=rng.randint(1,4)
    chain=[]
    for i in range(n):
        el=dict(name=rng.choice(NAMES), rings=[], branches=[], mult=1, bond=None)
        if i>0 and rng.random()<0.4: el['bond']=rng.choice([0,1,2,3,4])
        is_last=(i==n-1)
        if depth<2 and rng.random()<0.35 and not (is_last and depth>0):
            for b in range(rng.randint(1,2)):
                el['branches'].append(dict(order=rng.choice([None,None,0,2,3]), chain=gen_chain(rng, depth+1), mult=1, between=None))
        chain.append(el)
    return chain
def add_rings(ast, rng):
    els=flat(ast,[])
    if len(els)<3: return
    nr=rng.randint(0,3)
    used=set()
    for r in range(nr):
        a,b=sorted(rng.sample(range(len(els)),2))
        if b-a<1: continue
        m=rng.choice([1,2,3,4,5,10,12,25,99]) 
        if m in used: continue
        used.add(m)
        style = 'd' if m<10 and rng.random()<0.6 else rng.choice(['p2','p2'])
        style2 = 'd' if m<10 and rng.random()<0.6 else 'p2'
        o=rng.choice([None,None,0,2,3,4,1])
        els[a]['rings'].append((o,m,style)); els[b]['rings'].append((None,m,style2))
def fix_ring_order(ast):
    # a %nn marker must not be directly followed by a bare digit marker without order symbol -> ambiguous; reorder/patch
    for el in flat(ast,[]):
        rs=el['rings']
        for i in range(len(rs)-1):
            if rs[i][2]!='d' and rs[i+1][2]=='d' and rs[i+1][0] is None:
                rs[i+1]=(rs[i+1][0],rs[i+1][1],'p2')
rng=random.Random(5); bad={}; ok=0; N=6000; skipped=0
for k in range(N):
    ast=gen_chain(rng,0); add_rings(ast,rng); fix_ring_order(ast)
    s='{'+unparse2(ast,rng,None)+'}'
    # ref: strip style
    for el in flat(ast,[]): el['rings']=[(o,m) for (o,m,st) in el['rings']]
    try: nodes,edges=build(ast)
    except SyntaxError: skipped+=1; continue
    try:
        g=read_cgsmiles(s)
        got_nodes=[g.nodes[n]['fragname'] for n in sorted(g.nodes)]
        got_edges={(min(a,b),max(a,b)):o for a,b,o in g.edges(data='order')}
        if got_nodes==nodes and got_edges==edges and list(g.nodes)==list(range(len(nodes))): ok+=1
        else: bad.setdefault('diff',[]).append((s,sorted(edges.items()),sorted(got_edges.items())))
    except Exception as e:
        bad.setdefault(type(e).__name__,[]).append((s,str(e)))
print('ok',ok,'skipped',skipped,{k:len(v) for k,v in bad.items()})
for k,v in bad.items():
    for s in sorted(v,key=lambda x:len(x[0]))[:8]: print('   ',k,s)
