import numpy as np, networkx as nx, warnings
from cgsmiles import MoleculeResolver
from cgsmiles.graph_layout import vespr_layout
import random
def check(g, b, tag):
    try:
        pos=vespr_layout(g, default_bond=b)
    except Exception as e:
        return (tag,'EXC',type(e).__name__,str(e)[:80])
    arr=np.array([pos[n] for n in g.nodes])
    if set(pos)!=set(g.nodes): return (tag,'keys')
    if not np.all(np.isfinite(arr)): return (tag,'nonfinite')
    d=[np.linalg.norm(pos[a]-pos[b_]) for a,b_ in g.edges]
    if min(d)<1e-9: return (tag,'coincide',min(d))
    if abs(np.mean(d)-b)>1e-6*b: return (tag,'mean',np.mean(d),b)
    return None
rng=random.Random(0); np.random.seed(0)
bad=[]
graphs=[('path%d'%n, nx.path_graph(n)) for n in (2,3,5,10)]+[('star%d'%n, nx.star_graph(n)) for n in (2,3,5)]+[('cycle%d'%n, nx.cycle_graph(n)) for n in (3,4,5,6)]
g=nx.cycle_graph(6); g.add_edges_from([(0,6),(6,7),(7,8),(8,9),(9,1)]); graphs.append(('fused',g))
for s in ["{[#A][#B]}.{#A=CC[$],#B=[$]O}","{[#A]}.{#A=c1ccccc1C(=O)O}","{[#A][#B]}.{#A=CC(/F)=[$],#B=[$]=C(/F)C}","{[#A][#B]}.{#A=C\C=C/[$],#B=[$]/C=C/C}"]:
    cg,aa=MoleculeResolver.from_string(s).resolve(); graphs.append((s,aa)); graphs.append((s+'cg',cg))
for tag,g in graphs:
    for b in (1,0.5,2.7):
        for rep in range(5):
            # relabel
            nodes=list(g.nodes); perm=nodes[:]; rng.shuffle(perm)
            h=nx.relabel_nodes(g, dict(zip(nodes,perm)), copy=True) if 'ez_isomer' not in str(g.nodes(data=True)) else g
            r=check(h,b,tag)
            if r: bad.append(r)
print(len(bad)); 
for b in bad[:30]: print(b)
