#!/bin/sh
# usage: reseed.sh C10_s  -> re-confirm a kept seed against current checks
sid=$1
rm -rf /tmp/reseed_$sid; cp -r /verif/seeded/$sid /tmp/reseed_$sid
cd /verif && /venv/bin/python tools/seeded.py /tmp/reseed_$sid $sid $2 2>&1 | /venv/bin/python -c "
import sys,json
txt=sys.stdin.read()
try:
    d=json.loads(txt[txt.index('{'):])
except Exception as e:
    print('PARSE', txt[-500:]); sys.exit()
print({k:d.get(k) for k in ('confirmed','caught_by')})
for p,v in d.get('checks',{}).items():
    print(' ',p,v['exit'],v['first'][:260])"
rm -rf /tmp/reseed_$sid
