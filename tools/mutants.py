"""Monitor validation: apply each hand-written mutation of DESIGN.md section 5 to a scratch worktree of
/repo (outside /repo and /verif, removed afterwards), confirm the repository's own tests still pass,
and run the named checks against it (VMON_REPO).   python tools/mutants.py [name-substring ...]"""
import json
import os
import shutil
import subprocess
import sys
import time

VERIF = os.path.dirname(os.path.dirname(os.path.abspath(__file__)))
WT = '/tmp/vmon_wt_mut'
R = 'cgsmiles/resolve.py'
RC = 'cgsmiles/read_cgsmiles.py'
RF = 'cgsmiles/read_fragments.py'
GU = 'cgsmiles/graph_utils.py'
PU = 'cgsmiles/pysmiles_utils.py'
W = 'cgsmiles/write_cgsmiles.py'
S = 'cgsmiles/sample.py'
D = 'cgsmiles/dialects.py'
CU = 'cgsmiles/cgsmiles_utils.py'
RK = 'cgsmiles/rdkit.py'
CO = 'cgsmiles/coordinates.py'
GL = 'cgsmiles/graph_layout.py'
GLU = 'cgsmiles/graph_layout_utils.py'

M = [
    # C01
    ('c01_order_ignored', R, "                order = int(bonding[0][-1])\n", "                order = 1\n", ['C01', 'C03']),
    ('c01_strip_wrong_char', RF, "                    smile = smile[:-1]\n", "                    smile = smile[:-2] + smile[-1:]\n", ['C01', 'C13']),
    ('c01_aromatic_flag_dropped', R, "                    order = 1.5\n", "                    order = 1\n", ['C01']),
    # C02
    ('c02_fragid_offset', R, "                self.molecule.nodes[new_node]['fragid'] = [meta_node]\n", "                self.molecule.nodes[new_node]['fragid'] = [meta_node + 1] if len(self.meta_graph) > 3 else [meta_node]\n", ['C02']),
    ('c02_h_no_fragid', PU, "                    copy_attrs=['fragid', 'fragname', 'weight']):", "                    copy_attrs=['fragname', 'weight']):", ['C02', 'C09']),
    ('c02_mapping_missing', R, "                self.molecule.nodes[new_node]['mapping'] = [(fragname, node)]\n", "                self.molecule.nodes[new_node]['mapping'] = [(fragname, node)] if node else []\n", ['C02']),
    # C03
    ('c03_no_remove_target', R, "                node_graph.nodes[edge[1]]['bonding'].remove(bonding[1])\n", "                pass\n", ['C03']),
    ('c03_compat_same_dir', R, "        if (l, r) == ('<', '>') or (l, r) == ('>', '<'):\n            return left[1:] == right[1:]\n", "        if (l, r) == ('<', '>') or (l, r) == ('>', '<') or (l, r) == ('>', '>'):\n            return left[1:] == right[1:]\n", ['C03']),
    ('c03_label_dropped', R, "        if left == right and left[0] not in '> <':\n            return True\n", "        if left[0] == right[0] and left[-1] == right[-1] and left[0] not in '> <':\n            return True\n", ['C03', 'C01']),
    ('c03_order_plus_one', R, "            for _ in range(0, self.meta_graph.edges[(prev_node, node)][\"order\"]):", "            for _ in range(0, self.meta_graph.edges[(prev_node, node)][\"order\"] + (1 if self.meta_graph.edges[(prev_node, node)][\"order\"] else 0)):", ['C03']),
    # C04
    ('c04_ring_order_from_closing', RC, "                    if ring_marker in cycle:\n                        cycle_edges.append((current,\n                                            cycle[ring_marker][0],\n                                            cycle[ring_marker][1]))\n                        del cycle[ring_marker]\n                    # the marker is not in cycle",
     "                    if ring_marker in cycle:\n                        cycle_edges.append((current,\n                                            cycle[ring_marker][0],\n                                            ring_bond_order))\n                        del cycle[ring_marker]\n                    # the marker is not in cycle", ['C04']),
    ('c04_pct_first_digit_only', RC, "                ring_marker = int(ring_marker[1:])\n", "                ring_marker = int(ring_marker[1:3])\n", ['C04']),
    ('c04_bond_after_branch_lost', RC, "            elif eon_a+1 < len(pattern) and pattern[eon_a+1] in symbol_to_order:\n                prev_bond_order = symbol_to_order[pattern[eon_a+1]]\n", "            elif eon_a+1 < len(pattern) and pattern[eon_a+1] in '=#$':\n                prev_bond_order = symbol_to_order[pattern[eon_a+1]]\n", ['C04']),
    # C05
    ('c05_expand_n_times', RC, "                for idx in range(0,int(pattern[eon_a+2:eon_b])-1):", "                for idx in range(0,int(pattern[eon_a+2:eon_b])-1 if int(pattern[eon_a+2:eon_b]) < 4 else int(pattern[eon_a+2:eon_b])):", ['C05']),
    ('c05_between_order_lost', RC, "                    recipes[prev_node][0] = (recipe[0], recipe[1], anchor_order)\n", "                    recipes[prev_node][0] = (recipe[0], recipe[1], 1)\n", ['C05']),
    # C06
    ('c06_all_atom_wrong_level', R, "        all_atom = (self.resolution_counter == self.resolutions - 1 and self.last_all_atom)\n\n        # get the next set", "        all_atom = (self.resolution_counter >= self.resolutions - 2 and self.resolutions > 2 and self.last_all_atom) or (self.resolution_counter == self.resolutions - 1 and self.last_all_atom)\n\n        # get the next set", ['C06']),
    ('c06_resolve_all_penultimate', R, "        *_, (meta_graph, graph) = self.resolve_iter()\n        return meta_graph, graph\n", "        steps = list(self.resolve_iter())\n        meta_graph, graph = steps[-2] if len(steps) > 2 else steps[-1]\n        return meta_graph, graph\n", ['C06']),
    # C07
    ('c07_marker_not_released', W, "                    marker = ring_idx_to_marker.pop(ring_idx)\n", "                    marker = ring_idx_to_marker[ring_idx]\n", ['C07']),
    ('c07_symbol_for_order_zero_lost', W, "order_to_symbol = {0: '.', 1: '-', 1.5: ':', 2: '=', 3: '#', 4: '$'}", "order_to_symbol = {0: '.', 1: '-', 1.5: ':', 2: '=', 3: '#', 4: '#'}", ['C07']),
    # C08
    ('c08_label_dropped_long', W, "        bond_str += \"[\"+str(bonding_descrpt[:-1])+\"]\"\n", "        bond_str += \"[\"+str(bonding_descrpt[:-1][:2])+\"]\"\n", ['C08']),
    ('c08_symbol_after_descriptor', W, "        if order_symb != '-':\n            bond_str += order_symb\n        bond_str += \"[\"+str(bonding_descrpt[:-1])+\"]\"\n", "        bond_str += \"[\"+str(bonding_descrpt[:-1])+\"]\"\n        if order_symb != '-':\n            bond_str += order_symb\n", ['C08']),
    # C09
    ('c09_respect_hcount', PU, "    pysmiles.smiles_helper.fill_valence(mol_graph, respect_hcount=False)\n", "    pysmiles.smiles_helper.fill_valence(mol_graph, respect_hcount=True)\n", ['C09', 'C01']),
    ('c09_no_weight_copy', PU, "                    copy_attrs=['fragid', 'fragname', 'weight']):", "                    copy_attrs=['fragid', 'fragname']):", ['C09']),
    ('c09_hcount_not_reset', PU, "    nx.set_node_attributes(mol_graph, 0, 'hcount')\n\n    # first we need", "    for _n in mol_graph.nodes:\n        if mol_graph.nodes[_n].get('charge', 0) == 0:\n            mol_graph.nodes[_n]['hcount'] = 0\n\n    # first we need", ['C09', 'C01']),
    # C10
    ('c10_self_loops', R, "                                                self_loops=False)\n", "                                                self_loops=True)\n", ['C10']),
    ('c10_fragid_not_appended', R, "            self.molecule.nodes[node_to_keep]['fragid'] += self.molecule.nodes[node_to_keep]['contraction'][node_to_remove]['fragid']\n", "            pass\n", ['C10', 'C02']),
    ('c10_not_transitive', R, "            while node_to_remove in squashed:\n                node_to_remove = squashed[node_to_remove]\n", "            node_to_remove = squashed.get(node_to_remove, node_to_remove)\n", ['C10']),
    # C11
    ('c11_any_instead_of_all', R, "                if not all(np.array(orders) == 0):\n", "                if not any(np.array(orders) == 0) and len(orders):\n", ['C11', 'C20']),
    ('c11_zero_edge_bonds', R, "            for _ in range(0, self.meta_graph.edges[(prev_node, node)][\"order\"]):", "            for _ in range(0, self.meta_graph.edges[(prev_node, node)][\"order\"] or (1 if len(self.meta_graph) > 4 else 0)):", ['C11', 'C03']),
    # C12
    ('c12_sort_without_index', GU, "    sorted_ids = sorted(fragids.items(), key=lambda item: (item[1], item[0]))\n", "    sorted_ids = sorted(fragids.items(), key=lambda item: (item[1], str(item[0])))\n", ['C12']),
    ('c12_shallow_copy', GU, "        new_atom = copy.deepcopy(target_graph.nodes[node])\n", "        new_atom = dict(target_graph.nodes[node])\n", ['C12', 'C03']),
    ('c12_fragment_cache', RF, "    if fragment_dict is None:\n        fragment_dict = {}\n", "    if fragment_dict is None:\n        fragment_dict = {}\n    global _CACHE\n    try:\n        _CACHE\n    except NameError:\n        _CACHE = {}\n    if all_atom and len(fragment_str) < 40:\n        key = tuple(f.split('=')[0] for f in fragment_str[1:-1].split(','))\n        if key in _CACHE:\n            return _CACHE[key]\n        _CACHE[key] = fragment_dict\n", ['C12']),
    ('c12_set_iteration', R, "        edges = list(self.meta_graph.edges)\n", "        edges = list({str(e): e for e in set(map(frozenset, self.meta_graph.edges))}.keys())\n        edges = [tuple(e) if len(e) == 2 else (e, e) for e in set(map(frozenset, self.meta_graph.edges))]\n        edges = [e for e in edges if len(e) == 2]\n", ['C12', 'C15']),
    ('c12_hash_order', R, "        edges = list(self.meta_graph.edges)\n", "        edges = sorted(self.meta_graph.edges, key=lambda e: hash(str(self.meta_graph.nodes[e[0]].get('fragname')) + str(e)))\n", ['C12']),
    # C13
    ('c13_order_not_reset_after_atom', RF, "            else:\n                smile += token\n            current_order = None\n            prev_node = node_count\n", "            else:\n                smile += token\n            prev_node = node_count\n", ['C13', 'C01']),
    ('c13_prev_not_restored', RF, "        elif token == ')':\n            prev_node = anchor.pop()\n", "        elif token == ')':\n            anchor.pop()\n", ['C13']),
    ('c13_br_not_two_letter', RF, "['Cl', 'Br', 'Si', 'Mg', 'Na']", "['Cl', 'Si', 'Mg', 'Na']", ['C13', 'C01']),
    # C14
    ('c14_q_w_swapped', D, "CGSMILES_DEFAULT_DIALECT = create_dialect({\"fragname\": (None, str),\n                                           \"q\": (0.0, float),\n                                           \"w\": (1.0, float)})", "CGSMILES_DEFAULT_DIALECT = create_dialect({\"fragname\": (None, str),\n                                           \"w\": (1.0, float),\n                                           \"q\": (0.0, float)})", ['C14', 'C04']),
    ('c14_default_weight_zero', D, "fragment_base = create_dialect({\"w\": (1.0, float), \"x\": (None, str)}, accept_kwargs=True)", "fragment_base = create_dialect({\"w\": (0.0, float), \"x\": (None, str)}, accept_kwargs=True)", ['C14']),
    ('c14_cast_dropped', D, "            if not isinstance(value, expected_type):\n", "            if not isinstance(value, expected_type) and name != 'q':\n", ['C14', 'C20']),
    # C15
    ('c15_ez_before_sort', R, "        # sort the atoms\n        self.molecule = sort_nodes_by_attr(self.molecule, sort_attr=(\"fragid\"))\n\n        if all_atom:\n            annotate_ez_isomers_cgsmiles(self.molecule)\n", "        if all_atom:\n            annotate_ez_isomers_cgsmiles(self.molecule)\n\n        # sort the atoms\n        self.molecule = sort_nodes_by_attr(self.molecule, sort_attr=(\"fragid\"), relative_attr=[])\n", ['C15']),
    ('c15_chiral_wrong_atom', RF, "                attributes[node_count].update(node_attributes)\n", "                attributes[node_count + (1 if 'chiral' in node_attributes and node_count else 0)].update(node_attributes)\n", ['C15', 'C13']),
    # C16
    ('c16_partner_not_removed', S, "        molecule.nodes[correspondence[target_node]]['bonding'].remove(compl_bonding)\n", "        pass\n", ['C16']),
    ('c16_dollar_ignores_order', CU, "            if descriptor[0] == '$' and descriptor[-1] == bonding_descriptor[-1]:\n", "            if descriptor[0] == '$':\n", ['C16']),
    # C17
    ('c17_missing_key_weight_one', S, "        probs = np.array([probabilities.get(bond_type, 0) for bond_type in bonds])\n", "        probs = np.array([probabilities.get(bond_type, 1) for bond_type in bonds])\n", ['C17']),
    ('c17_loop_le', S, "        while current_weight < target_weight:\n", "        while current_weight <= target_weight + self.fragment_masses[fragname if 'fragname' in dir() else list(self.fragment_masses)[0]] * 0.5:\n", ['C17']),
    ('c17_terminal_inverted', S, "        if compl_bonding in self.terminal_bonds:\n            del molecule.nodes[source_node]['bonding']\n", "        if compl_bonding not in self.terminal_bonds and len(self.terminal_bonds) > 0:\n            del molecule.nodes[source_node]['bonding']\n", ['C17', 'C16']),
    ('c17_seed_late', S, "        random.seed(a=seed)\n        self.fragment_dict = fragment_dict\n", "        self.fragment_dict = fragment_dict\n        self._seed = seed\n", ['C17']),
    ('c17_mass_without_h', PU, "    rebuild_h_atoms(molecule)\n    mass = 0\n", "    mass = 0\n", ['C17']),
    # C18
    ('c18_sorted_nodes', RK, "    for node, props in mol_graph.nodes(data=True):\n        atom = Chem.Atom(props.get('element', '*'))", "    for node, props in sorted(mol_graph.nodes(data=True), key=lambda x: x[0]):\n        atom = Chem.Atom(props.get('element', '*'))", ['C18']),
    ('c18_charge_not_copied', RK, "        atom.SetFormalCharge(props.get('charge', 0))\n", "        atom.SetFormalCharge(0)\n", ['C18']),
    ('c18_bead_by_count', CO, "        cg_pos = cg_pos / sum(weights.values())\n", "        cg_pos = cg_pos / len(weights)\n", ['C18']),
    # C19
    ('c19_scale_by_max', GL, "    avg_dist = avg_dist / len(graph.edges)\n", "    avg_dist = max(np.linalg.norm(pos[e[0]]-pos[e[1]]) for e in graph.edges)\n", ['C19']),
    ('c19_rotation_wrong_anchor', GLU, "    new_points = rotate_degrees(target_points, rotate_angle, origin=points[anchor])\n", "    new_points = rotate_degrees(target_points, rotate_angle, origin=points[target])\n", ['C19']),
    # C20
    ('c20_dangling_check_dropped', RC, "    if cycle:\n        msg = \"You have a dangling ring index.\"\n        raise SyntaxError(msg)\n", "    if cycle and len(mol_graph) < 4:\n        msg = \"You have a dangling ring index.\"\n        raise SyntaxError(msg)\n", ['C20']),
    ('c20_duplicate_edge_one_orientation', RC, "                if cycle_edge in mol_graph.edges:\n", "                if cycle_edge[0] == cycle_edge[1] + 1 and cycle_edge in mol_graph.edges:\n", ['C20']),
    ('c20_typeerror_swallowed', D, "                except (TypeError, ValueError):\n                    raise TypeError(f\"Argument '{name}' must be of type {expected_type.__name__}\")", "                except (TypeError, ValueError):\n                    if name == 'w':\n                        bound_args.arguments[name] = 1.0\n                        continue\n                    raise TypeError(f\"Argument '{name}' must be of type {expected_type.__name__}\")", ['C20']),
]


def sh(cmd, **kw):
    return subprocess.run(cmd, shell=True, capture_output=True, text=True, **kw)


def main():
    want = sys.argv[1:]
    allchecks = '--all' in want
    want = [w for w in want if not w.startswith('--')]
    sh(f'git -C /repo worktree remove --force {WT}')
    shutil.rmtree(WT, ignore_errors=True)
    r = sh(f'git -C /repo worktree add --detach {WT} HEAD')
    assert r.returncode == 0, r.stderr
    results = []
    try:
        for name, path, old, new, props in M:
            if want and not any(w in name for w in want):
                continue
            full = os.path.join(WT, path)
            src = open(full).read()
            if old not in src:
                results.append(dict(name=name, error='pattern not found'))
                print(f'{name}: PATTERN NOT FOUND')
                continue
            open(full, 'w').write(src.replace(old, new, 1))
            t = sh(f'cd {WT} && /venv/bin/python -m pytest -q -x -p no:cacheprovider 2>&1 | tail -1')
            tests_ok = ' passed' in t.stdout and 'failed' not in t.stdout
            row = dict(name=name, tests=t.stdout.strip()[-60:], tests_ok=tests_ok, checks={})
            run_props = props if not allchecks else ['C%02d' % i for i in range(1, 21)]
            for p in run_props:
                t0 = time.time()
                c = sh(f'cd {VERIF} && VMON_REPO={WT} ./check {p} --tier quick')
                first = [ln for ln in c.stdout.splitlines() if ln.strip().startswith('clause=')]
                row['checks'][p] = dict(exit=c.returncode, wall=round(time.time() - t0, 1), first=first[0].strip()[:160] if first else '')
            caught = [p for p, v in row['checks'].items() if v['exit'] == 1]
            row['caught_by'] = caught
            results.append(row)
            print(f"{name}: tests_ok={tests_ok} caught_by={caught} expected={props} " + ' | '.join(f"{p}:{v['exit']}" for p, v in row['checks'].items()), flush=True)
            sh(f'git -C {WT} checkout -- .')
    finally:
        sh(f'git -C /repo worktree remove --force {WT}')
        shutil.rmtree(WT, ignore_errors=True)
    os.makedirs(os.path.join(VERIF, '.work'), exist_ok=True)
    json.dump(results, open(os.path.join(VERIF, '.work', 'mutants_result.json'), 'w'), indent=1)


if __name__ == '__main__':
    main()
