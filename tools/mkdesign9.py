"""Regenerate section 9 of DESIGN.md from .work/mutants_result_full.json, seeded/*/meta.json and seeded/NOTES.json."""
import glob
import json
import os

V = os.path.dirname(os.path.dirname(os.path.abspath(__file__)))
res = json.load(open(os.path.join(V, 'seeded', 'mutants_result.json')))
strength = json.load(open(os.path.join(V, 'seeded', 'NOTES.json')))
note = {'c01_aromatic_flag_dropped': 'equivalent: aromaticity is re-perceived when hydrogens are rebuilt, the provisional 1.5 is never observable',
        'c04_pct_first_digit_only': 'equivalent inside the documented grammar (%nn has two digits; only the undocumented %nnn spelling changes)',
        'c07_marker_not_released': 'equivalent for the round trip: markers are merely not reused',
        'c09_hcount_not_reset': 'equivalent: fill_valence adds the missing valence on top of the stale count, the sum is the same',
        'c12_sort_without_index': 'changes only the order of atoms inside a block, which the property does not fix (the repository tests fail, though)',
        'c12_shallow_copy': 'the resolver deep-copies again before consuming descriptors, so only the sampler is affected: caught by C16 (descriptor ledger), not by the resolver checks',
        'c12_set_iteration': 'order is that of frozensets of ints: deterministic under every hash seed, not a violation; see c12_hash_order',
        'c19_rotation_wrong_anchor': 'positions stay finite, distinct and correctly scaled: not a violation of C19 as stated'}
out = ["## 9. Validation of the monitors\n", "### 9.1 Hand-written mutations (`tools/mutants.py`)\n",
       "Each mutation of §5 (adapted to the repaired tree) is applied to a scratch worktree under `/tmp`, the repository's tests are run, and the named quick checks run with `VMON_REPO` pointing at the scratch tree. `tests` says whether the 150 repository tests still pass with the mutation (many of these are blunt and fail a test; they are kept because they validate the oracle, not because they are realistic).\n",
       "| mutation | tests pass | caught by (quick tier) | remark |\n|---|---|---|---|"]
n_c = 0
for r in res:
    if 'error' in r:
        continue
    cb = ', '.join(r['caught_by']) or '—'
    n_c += bool(r['caught_by'])
    out.append(f"| `{r['name']}` | {'yes' if r['tests_ok'] else 'no'} | {cb} | {note.get(r['name'], '')} |")
out.append(f"\n{n_c} of {len(res)} mutations are caught within the quick budget; the others are equivalent with respect to the property as stated (remarks).\n")
metas = sorted(glob.glob(os.path.join(V, 'seeded', '*', 'meta.json')))
out.append("### 9.2 Independently seeded changes (`seeded/`, `tools/seeded.py`)\n")
out.append(f"{len(metas)} changes were written by fresh sub-agents that saw only the text of one property and a scratch worktree of `/repo` (nothing from `/verif`); the second and third agent per property were additionally told what the earlier ones had done and asked for a different clause or mechanism. Each change was confirmed here in a fresh scratch worktree of the current `/repo` HEAD: the patch applies, the 150 repository tests pass with it, the agent's demonstration fails with it and passes without. `caught by` is the result of the quick tier against the patched worktree. Where the first run missed a change the workload or oracle was strengthened (last column) - never the other way round - and the checks were re-run on the unchanged tree over several seeds before the strengthening was accepted. `tools/seeded_sweep.py` re-runs kept changes under other VERIF_SEED values; the last full sweeps (120 changes under seeds 1 and 2, later 160 changes under seed 1) caught every change (one exception, C12_c under one seed, was strengthened afterwards).\n")
out.append("| id | what the change needs in order to show | caught by | what had to be strengthened first |\n|---|---|---|---|")
missed = 0
for f in metas:
    m = json.load(open(f))
    sid = f.split('/')[-2]
    c = m['confirmation']
    summ = (m.get('needs_to_manifest') or m.get('summary') or '').replace('\n', ' ').replace('|', '\\|')
    if len(summ) > 240:
        summ = summ[:237] + '...'
    missed += sid in strength
    out.append(f"| {sid} | {summ} | {', '.join(c.get('caught_by', [])) or '—'} | {strength.get(sid, '—')} |")
uncaught = [f.split('/')[-2] for f in metas if not json.load(open(f))['confirmation'].get('caught_by')]
out.append(f"\n{missed} of the {len(metas)} changes were missed by the checks as they stood when the change arrived. After strengthening, every change is caught by its property's own quick check, with these exceptions, explained in the last column: {', '.join(uncaught) or 'none'} (not caught by any check. C06_k, C10_l, C10_q and C20_p show only on inputs outside the property's quantifier: for C06_k and C10_q (a shared aromatic atom spelled in lower case in one fragment and in upper case in the other) the unchanged tree does not satisfy the property there either, for C10_l the property does not say which of several identical '!' descriptors of one fragment pairs up, for C20_p the faulty node has no name at all, so the string is not 'otherwise valid'. C15_p and C15_r show on classes the C15 generator leaves out on purpose - an atom between two conjugated stereo double bonds, a marked substituent that is itself part of a (Kekule-written) double bond - because pysmiles' own reading of such spellings differs from OpenSMILES or is ambiguous and no reference exists: real blind spots of the check, recorded as such. C10_s, C15_s, C16_s and C17_s of the last batch are plain misses that were not closed in the time left: their triggers (several molecules in one from_graph graph with an open '!' label; a plain written hydrogen as marked substituent; a lower-case [nH] ring in the sampler; a library key that differs from the fragment name) are named in the last column) and C15_i (caught by the numbering clauses of C12 and C16, not by C15). The recurring lesson: every miss was an input class the generators did not produce (a size, a spelling, a constructor, a second level, a key ending in a digit), an API entry point the workload never called (resolve_all, the sampler's constructor, from_graph with a keyword), or a contract that judged the result by the library's own state (its templates, its last_all_atom / legacy flags) instead of by what the caller wrote - which is the characteristic limit of this family (section 7). Three batches also exposed genuine defects of the unchanged tree: annotations lost through the squash operator (repaired in cf48081), RDKit re-perceiving aromaticity (C18, open finding), and two further faces of the E/Z root cause (C15, open findings: shared marked substituent; cut marked substituent of the first-written double-bond atom).\n")
out.append("### 9.3 Behaviour-preserving changes\n")
out.append("A scratch tree with eight refactorings that keep every property (private helper of the sampler renamed, two error messages reworded, an extra node attribute on fine nodes, dict-based bookkeeping in `squash_atoms` and `read_fragments`, string concatenation in the writer, NumPy means in layout and forward mapping) was run through all twenty quick checks: no VIOLATION, no INCONCLUSIVE. Hooks whose target disappears are skipped (`hooks.MISSING`), mechanism line coverage never influences a verdict, messages are matched only to *classify an expected rejection*, never to raise an alarm. False alarms met while building the machinery and how they were removed: C06 thorough seed 61 (the name-reuse step of the hierarchy generator could give two different groups of one level the same name once a decoy definition repeated a lower-level name: names are deduplicated); C18 bond-length window on hypervalent sulfur / bridged benzene / fused three-rings (domain restricted to unstrained standard-valence molecules); C18 round trip on P(=O)(=C) (RDKit's order-dependent charge separation: hypervalent centres excluded); C09 on explicitly written hydrogens and on label-insensitive pairings of unequal order (contract follows the statement); C17 stop rule on a float tie (targets moved off multiples, sequential accumulation replayed); C19 on a graph whose only edge has order 0 (outside the premise); C03 equal-order requirement under the label-insensitive convention (dropped, the statement does not make it); C12 thorough tier on a loaded machine: the per-case hang watchdog fired inside a history, the monitor's own `except Exception` turned it into a recorded 'result' and the comparison with the reference run reported a difference (the watchdog exception is now a BaseException, a history case has a one-hour budget, and a fired watchdog can only make a run inconclusive); C03 thorough tier: the workload generator ran out of ring numbers on a fragment with more than 15 ring closures and ended the shard as a harness error (pool extended; a generator crash now restarts generation and is recorded in the evidence); C06 thorough tier (seed 41): in a polymer-style input resolved under the label-insensitive convention a lower-case benzene unit had received an exocyclic double bond (a `$` of order 1 pairs with a `$` of order 2 there), its ring was no longer aromatic and the library's re-kekulisation of all lower-case atoms put the double bond of the quinoid structure on the bond between two rings, annotated with order 1 - the bond-order clause of C03 now accepts 1, 2 or 1.5 for a bond between two atoms written in lower case, in the polymer-style workloads only (in the ground-truth workloads aromatic rings are aromatic and the strict clause stays).\n")
p = os.path.join(V, 'DESIGN.md')
s = open(p).read()
s = s[:s.index('## 9. Validation of the monitors')].rstrip('\n') + '\n\n' + '\n'.join(out) + '\n'
open(p, 'w').write(s)
print(len(res), n_c, len(metas), missed)
