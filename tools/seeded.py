"""Confirm a seeded change delivered by a sub-agent and run the checks against it.

  python tools/seeded.py <src_dir> <seed_id> [--all]

<src_dir> holds patch.diff, demo.py, meta.json.  In a fresh scratch worktree of /repo HEAD (outside
/repo and /verif, removed afterwards) the patch is applied; confirmed are: the repository tests still
pass, demo.py fails with the patch and passes without.  Then the property's check (or all checks) runs
with VMON_REPO pointing at the patched worktree.  Kept changes are stored under /verif/seeded/<seed_id>/.
"""
import json
import os
import shutil
import subprocess
import sys
import time

VERIF = os.path.dirname(os.path.dirname(os.path.abspath(__file__)))


def sh(cmd, **kw):
    return subprocess.run(cmd, shell=True, capture_output=True, text=True, **kw)


def main():
    src, sid = sys.argv[1], sys.argv[2]
    allchecks = '--all' in sys.argv
    tier = 'thorough' if '--thorough' in sys.argv else 'quick'
    wt = f'/tmp/vmon_seed_{sid}_{os.getpid()}'
    meta = json.load(open(os.path.join(src, 'meta.json')))
    prop = meta.get('property') or sid.split('_')[0]
    sh(f'git -C /repo worktree remove --force {wt}')
    r = sh(f'git -C /repo worktree add --detach {wt} HEAD')
    assert r.returncode == 0, r.stderr
    out = dict(seed=sid, property=prop)
    try:
        shutil.copy(os.path.join(src, 'demo.py'), os.path.join(wt, 'demo.py'))
        envp = 'PBR_VERSION=0.0.0'
        d0 = sh(f'cd {wt} && {envp} timeout 600 /venv/bin/python demo.py')
        out['demo_without_patch_exit'] = d0.returncode
        a = sh(f'git -C {wt} apply {os.path.abspath(os.path.join(src, "patch.diff"))}')
        if a.returncode != 0:
            a = sh(f'git -C {wt} apply --3way {os.path.abspath(os.path.join(src, "patch.diff"))}')
        out['patch_applies'] = a.returncode == 0
        if a.returncode != 0:
            out['apply_error'] = a.stderr[-400:]
            print(json.dumps(out, indent=1))
            return
        t = sh(f'cd {wt} && /venv/bin/python -m pytest -q -p no:cacheprovider 2>&1 | tail -1')
        out['tests'] = t.stdout.strip()[-80:]
        out['tests_pass'] = '150 passed' in t.stdout
        d1 = sh(f'cd {wt} && {envp} timeout 600 /venv/bin/python demo.py')
        out['demo_with_patch_exit'] = d1.returncode
        out['confirmed'] = bool(out['tests_pass'] and d1.returncode != 0 and d0.returncode == 0)
        os.remove(os.path.join(wt, 'demo.py'))
        props = ['C%02d' % i for i in range(1, 21)] if allchecks else [prop]
        out['checks'] = {}
        for p in props:
            t0 = time.time()
            c = sh(f'cd {VERIF} && VMON_REPO={wt} ./check {p} --tier {tier}')
            first = [ln.strip() for ln in c.stdout.splitlines() if ln.strip().startswith('clause=')]
            out['checks'][p] = dict(exit=c.returncode, wall=round(time.time() - t0, 1), first=first[0][:300] if first else '')
        out['caught_by'] = [p for p, v in out['checks'].items() if v['exit'] == 1]
    finally:
        sh(f'git -C /repo worktree remove --force {wt}')
        shutil.rmtree(wt, ignore_errors=True)
    dst = os.path.join(VERIF, 'seeded', sid)
    os.makedirs(dst, exist_ok=True)
    for f in ('patch.diff', 'demo.py'):
        shutil.copy(os.path.join(src, f), os.path.join(dst, f))
    meta['confirmation'] = out
    meta['base_commit'] = sh('git -C /repo log --format=%h -1').stdout.strip()
    json.dump(meta, open(os.path.join(dst, 'meta.json'), 'w'), indent=1)
    print(json.dumps(out, indent=1))


if __name__ == '__main__':
    main()
