#!/bin/sh
# usage: xcheck.sh <patchdir> C01 C13 ...   run selected checks against a patched scratch worktree
src=$1; shift
wt=/tmp/xcheck_wt_$$
git -C /repo worktree add --detach $wt HEAD -q >/dev/null 2>&1
git -C $wt apply $src/patch.diff || echo APPLY-FAILED
for c in "$@"; do (cd /verif && VMON_REPO=$wt ./check $c --tier quick 2>&1 | grep -v "^KNOWN" | grep -m1 "clause=" | cut -c1-330; cd /verif && echo "$c done"); done
git -C /repo worktree remove --force $wt
