"""Instructions for the next batch of independently seeded changes (section 9.2 of DESIGN.md).

  python tools/seed_instructions.py <previous batch number> <new batch number>

Takes /tmp/seed_out<prev>/CNN/instructions.txt, appends the change delivered in that batch to the list of
previous changes the new one has to differ from, and creates a scratch worktree /tmp/seed_wt<new>/CNN of
/repo HEAD per property.  A sub-agent gets that text and nothing from /verif."""
import json
import os
import re
import subprocess
import sys

prev, new = sys.argv[1], sys.argv[2]
WORDS = {11: 'eleven', 12: 'twelve', 13: 'thirteen', 14: 'fourteen', 15: 'fifteen'}
for i in range(1, 21):
    p = 'C%02d' % i
    src = f'/tmp/seed_out{prev}/{p}'
    txt = open(f'{src}/instructions.txt').read()
    nums = [int(x) for x in re.findall(r'previous change (\d+):', txt)]
    k = max(nums) + 1
    add = ''
    if os.path.exists(f'{src}/meta.json'):
        m = json.load(open(f'{src}/meta.json'))
        add = (f"  previous change {k}: {str(m.get('summary', ''))[:330].replace(chr(10), ' ')}\n"
               f"  its trigger: {str(m.get('needs_to_manifest', ''))[:270].replace(chr(10), ' ')}\n")
    marker = 'Study the whole call graph'
    txt = txt.replace(marker, add + marker, 1)
    txt = txt.replace(f'seed_wt{prev}', f'seed_wt{new}').replace(f'seed_out{prev}', f'seed_out{new}')
    txt = re.sub(r'IMPORTANT - \w+ other engineers', f'IMPORTANT - {WORDS.get(k, str(k)) if add else WORDS.get(k - 1, str(k - 1))} other engineers', txt)
    os.makedirs(f'/tmp/seed_out{new}/{p}', exist_ok=True)
    open(f'/tmp/seed_out{new}/{p}/instructions.txt', 'w').write(txt)
    wt = f'/tmp/seed_wt{new}/{p}'
    if not os.path.exists(wt):
        subprocess.run(['git', '-C', '/repo', 'worktree', 'add', '--detach', wt, 'HEAD'], check=True, capture_output=True)
print('ok')
