"""Detection robustness: run the property's quick check against every kept seeded change under several
VERIF_SEED values.  python tools/seeded_sweep.py [seed ...]   (default seeds 1 2 3)"""
import glob
import json
import os
import shutil
import subprocess
import sys

VERIF = os.path.dirname(os.path.dirname(os.path.abspath(__file__)))


def sh(cmd):
    return subprocess.run(cmd, shell=True, capture_output=True, text=True)


def main():
    seeds = [a for a in sys.argv[1:] if a.isdigit()] or ['1', '2', '3']
    only = [a for a in sys.argv[1:] if not a.isdigit()]
    rows = {}
    for d in sorted(x for x in glob.glob(os.path.join(VERIF, 'seeded', '*')) if os.path.isdir(x)):
        sid = os.path.basename(d)
        if only and not any(o in sid for o in only):
            continue
        prop = json.load(open(os.path.join(d, 'meta.json')))['property']
        wt = f'/tmp/vmon_sweep_{sid}'
        sh(f'git -C /repo worktree remove --force {wt}')
        shutil.rmtree(wt, ignore_errors=True)
        assert sh(f'git -C /repo worktree add --detach {wt} HEAD').returncode == 0
        try:
            a = sh(f'git -C {wt} apply {d}/patch.diff')
            if a.returncode != 0:
                rows[sid] = 'patch does not apply'
                continue
            res = []
            for s in seeds:
                c = sh(f'cd {VERIF} && VERIF_SEED={s} VMON_REPO={wt} ./check {prop} --tier quick')
                n = 0
                for ln in c.stdout.splitlines():
                    if 'count=' in ln and ln.strip().startswith('clause='):
                        n += int(ln.split('count=')[1].split()[0])
                res.append((c.returncode, n))
            rows[sid] = res
            print(sid, prop, res, flush=True)
        finally:
            sh(f'git -C /repo worktree remove --force {wt}')
            shutil.rmtree(wt, ignore_errors=True)
    json.dump(rows, open(os.path.join(VERIF, '.work', 'seeded_sweep.json'), 'w'), indent=1)


if __name__ == '__main__':
    main()
