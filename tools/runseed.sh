#!/bin/sh
# usage: runseed.sh ID [suffix]
id=$1; suf=${2:-a}
cd /verif && /venv/bin/python tools/seeded.py ${SEEDSRC:-/tmp/seed_out}/$id ${id}_$suf $3 2>&1 | /venv/bin/python -c "
import sys,json
txt=sys.stdin.read()
try:
    d=json.loads(txt[txt.index('{'):])
except Exception as e:
    print('PARSE', txt[-500:]); sys.exit()
print({k:d.get(k) for k in ('patch_applies','tests_pass','demo_without_patch_exit','demo_with_patch_exit','confirmed','caught_by')})
for p,v in d.get('checks',{}).items():
    print(' ',p,v['exit'],v['first'][:230])
if not d.get('checks'): print(d.get('apply_error'))"
