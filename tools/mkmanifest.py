"""Regenerate MANIFEST.json from the monitors that exist (python tools/mkmanifest.py)."""
import importlib
import json
import os
import sys

HERE = os.path.dirname(os.path.dirname(os.path.abspath(__file__)))
sys.path.insert(0, HERE)
sys.path.insert(0, os.path.join(HERE, '.deps'))
try:
    import networkx  # noqa: F401 - the monitors import it
except ImportError:      # started with an interpreter that lacks the repository's dependencies: use the repository's own
    os.execv('/venv/bin/python', ['/venv/bin/python'] + sys.argv)
props = [json.loads(l) for l in open(os.path.join(HERE, 'properties.jsonl'))]
BASE = "cd /repo && /venv/bin/python -m pytest -ra -q -p no:cacheprovider --timeout=900 --continue-on-collection-errors"
checks, na = [], []
for p in props:
    pid = p['id']
    path = os.path.join(HERE, 'vmon', 'monitors', pid.lower() + '.py')
    if not os.path.exists(path):
        na.append(dict(property_id=pid, reason='monitor not built yet (work in progress; see DESIGN.md section 4 for the planned oracle)'))
        continue
    src = open(path).read()
    meta = {}
    # metadata without importing cgsmiles
    mod = importlib.import_module('vmon.monitors.' + pid.lower())
    checks.append(dict(
        property_id=pid,
        quick_cmd=f'./check {pid} --tier quick',
        thorough_cmd=f'./check {pid} --tier thorough',
        evidence_file=f'/verif/evidence/{pid}.json',
        replay_cmd_template=f'./check {pid} --replay {{path}}',
        engine='vmon',
        level_claimed=dict(category=mod.LEVEL, text=getattr(mod, 'LEVEL_TEXT', mod.RULE), design_ref=f'DESIGN.md section 4, {pid}'),
        level_note='; '.join(getattr(mod, 'ASSUMPTIONS', [])) or 'trusted base: CPython, NetworkX, the generators and reference models in vmon/',
        technique=getattr(mod, 'TECHNIQUE', 'runtime monitoring: generated workload + oracle over observed executions'),
    ))
manifest = dict(
    version=1,
    setup_cmd='./setup.sh',
    hooks=dict(guard='CGSMILES_VERIF', enable='none needed: monitors attach by rebinding module attributes from the harness (vmon/hooks.py); no source hooks are compiled into /repo',
               baseline_off_cmd=BASE, source_commits=[], add_only=True),
    engines=[dict(name='vmon', path='/verif/vmon', serves_properties=[c['property_id'] for c in checks],
                  kind_free_text='runtime monitors: seeded workload generators, hooks on the real functions, reference models and offline trace checkers; sharded over 16 subprocesses')],
    checks=checks,
    not_applicable=na,
    notes='Every check imports the current working tree of /repo (PYTHONPATH=/repo). Verdicts are three-valued: exit 0 held on what was observed, exit 1 + VIOLATION line, exit 2 + INCONCLUSIVE line. Known findings: known_findings.json.',
)
with open(os.path.join(HERE, 'MANIFEST.json'), 'w') as fh:
    json.dump(manifest, fh, indent=1)
print(len(checks), 'checks;', len(na), 'not applicable')
