"""Instructions for a batch of independently seeded changes, built from scratch (section 9.2 of DESIGN.md).

  python tools/seed_batch.py <batch number>

Replaces tools/seed_instructions.py when the previous batch's /tmp/seed_out<prev> is gone: the text is
built from properties.jsonl (the property a sub-agent has to break) and from the summaries and triggers of
the changes already kept under seeded/ (so that the new change differs from them).  Creates a scratch
worktree /tmp/seed_wt<n>/CNN of /repo HEAD per property and writes /tmp/seed_out<n>/CNN/instructions.txt.
A sub-agent gets that text and nothing else from /verif."""
import glob
import json
import os
import subprocess
import sys

VERIF = os.path.dirname(os.path.dirname(os.path.abspath(__file__)))
new = sys.argv[1]
props = [json.loads(l) for l in open(os.path.join(VERIF, 'properties.jsonl'))]

NOTES = {
    'C10': "NOTE: the change must break the property for inputs inside its quantifier (both copies of a shared atom "
           "spelled alike and valid); a change that only alters what happens for inputs the property does not speak about does not count.",
    'C15': "NOTE: keep to molecules with isolated stereo double bonds and tetrahedral centres (no conjugated stereo dienes, "
           "no stereo bonds inside rings); the reading of those classes by pysmiles is unsettled and a change showing only there does not count.",
    'C20': "NOTE: the change must make a malformed input of one of the classes named in the property's quantifier resolve silently; "
           "other kinds of malformed text are outside the property.",
}

for p in props:
    pid = p['id']
    prev = []
    for d in sorted(glob.glob(os.path.join(VERIF, 'seeded', pid + '_*'))):
        try:
            m = json.load(open(os.path.join(d, 'meta.json')))
        except Exception:
            continue
        prev.append((str(m.get('summary', ''))[:300].replace('\n', ' '), str(m.get('needs_to_manifest', ''))[:220].replace('\n', ' ')))
    wt = f'/tmp/seed_wt{new}/{pid}'
    out = f'/tmp/seed_out{new}/{pid}'
    os.makedirs(out, exist_ok=True)
    txt = f"""You are a software engineer helping to evaluate a verification effort for the Python package CGsmiles
(gruenewald-lab/CGsmiles: parser, writer and multi-resolution resolver of the CGsmiles line notation, plus a random
polymer sampler).  Your own scratch git worktree of the repository is at {wt} (work ONLY there; never touch /repo or
/verif, and do not read anything under /verif).  Run python as: cd {wt} && PBR_VERSION=0.0.0 /venv/bin/python ...;
the test suite as: cd {wt} && /venv/bin/python -m pytest -q -p no:cacheprovider   (150 tests pass; there is no network).

The property that users rely on:

  {pid}: {p['title']}
  Statement: {p['statement']}
  Holds: {p['quantifier']['text']}
  Anchored in: {', '.join(p['anchors']['files'])}

Task: make ONE realistic change to the package source (under cgsmiles/, not the tests) that BREAKS this property while
the package still imports and all 150 existing tests still pass.  It should look like something a maintainer could
plausibly commit (a refactoring slip, an optimisation, a 'usability' default, a caching shortcut, a boundary condition),
not sabotage, and it must need something SPECIFIC to manifest: an unusual input, a multi-step sequence of API calls, a
particular constructor / keyword, or two cooperating sites that each look fine alone - not something ordinary use shows at once.
{NOTES.get(pid, '')}

IMPORTANT - {len(prev)} other engineers already delivered the changes below; yours must differ from all of them in mechanism
AND in the kind of input that triggers it (another function, another attribute, another API path):
"""
    for k, (s, t) in enumerate(prev, 1):
        txt += f"  previous change {k}: {s}\n  its trigger: {t}\n"
    txt += f"""
Study the whole call graph that the property depends on (also cgsmiles_utils.py, graph_utils.py, pysmiles_utils.py,
dialects.py, linalg_functions.py, and how third-party pysmiles / networkx / rdkit are used) before choosing.

Deliver, in {out}/ :
  patch.diff   - `git -C {wt} diff -- cgsmiles` (the change only)
  demo.py      - a small standalone program, run from the worktree root, that exits 0 and prints PROPERTY HELD on the unchanged
                 code and exits 1 printing PROPERTY VIOLATED with the change; it must judge by the property's own words
                 (compare with what the property promises), not by comparing against hard-wired output of the old code.
  meta.json    - {{"property": "{pid}", "summary": what was changed and which clause breaks, "needs_to_manifest": what input /
                 sequence / keyword it needs, "files_changed": [...], "how_verified": the commands you ran and what they printed}}
Verify yourself: tests pass with the change; demo fails with it and passes without (git apply -R, then re-apply).
Leave the worktree with the change applied.  Your final answer: three lines (what, trigger, verification outcome)."""
    open(f'{out}/instructions.txt', 'w').write(txt)
    if not os.path.exists(wt):
        subprocess.run(['git', '-C', '/repo', 'worktree', 'add', '--detach', wt, 'HEAD'], check=True, capture_output=True)
print('ok')
